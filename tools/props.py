"""Per-property streams (correspondence + judge).  Each `run_Cxx(ctx)` returns a Result."""
import collections, itertools, json, os, random, sys, time

sys.path.insert(0, os.path.dirname(os.path.abspath(__file__)))
import vlib, gen
from vlib import VERIF


class Ctx:
    def __init__(self, prop, tier, seed, replay=None):
        self.prop, self.tier, self.seed, self.replay = prop, tier, seed, replay
        self._hp = self._mp = None

    @property
    def hp(self):
        if self._hp is None:
            self._hp = vlib.harness_pool()
        return self._hp

    @property
    def mp(self):
        if self._mp is None:
            self._mp = vlib.model_pool()
        return self._mp

    def thorough(self):
        return self.tier == "thorough"

    def close(self):
        for p in (self._hp, self._mp):
            if p is not None:
                p.close()


class Result:
    def __init__(self, rule):
        self.rule = rule
        self.evaluations = 0
        self.nontrivial = set()
        self.samples = []
        self.disagreements = []     # model vs implementation (correspondence)
        self.judge_failures = []    # implementation vs property (judge)
        self.stats = collections.Counter()
        self.extra = {}

    def add_sample(self, s, cap=5):
        if len(self.samples) < cap:
            self.samples.append(s)

    def coverage(self):
        d = {"evaluations": self.evaluations, "distinct_nontrivial": len(self.nontrivial), "rule": self.rule,
             "samples": self.samples, "correspondence_disagreements": len(self.disagreements),
             "judge_failures": len(self.judge_failures),
             "distribution": {k: v for k, v in sorted(self.stats.items())}}
        d.update(self.extra)
        return d

    def summary(self):
        return "evaluations=%d nontrivial=%d disagreements=%d judge_failures=%d" % (
            self.evaluations, len(self.nontrivial), len(self.disagreements), len(self.judge_failures))


def match_known(prop, jf, known):
    """a judge failure is covered by a listed finding iff its class matches"""
    for f in known.get("findings", []):
        if f["property"] == prop and f.get("class") and f["class"] == jf.get("class"):
            return f
    return None


def slim(res):
    """a correspondence result without the bulky fields, for replays/samples"""
    out = {"rules": res["case"]["rules"], "data": res["case"]["data"], "verdict": res["verdict"]}
    for side in ("impl", "model"):
        o = res.get(side)
        if o:
            o = dict(o)
            o.pop("tree", None)
            out[side] = o
    return out


def tree_nodes(t):
    yield t
    for c in t["c"]:
        yield from tree_nodes(c)


def absorb(result, results, what="evaluator"):
    """fold correspondence results into a Result: counts, distribution, disagreements"""
    for r in results:
        result.evaluations += 1
        v = r["verdict"]
        result.stats["verdict:" + v] += 1
        impl = r.get("impl") or {}
        result.stats["impl:" + impl.get("kind", "?") + (":" + impl.get("err", "") if impl.get("kind") == "err" else "")] += 1
        if impl.get("kind") == "ok":
            result.stats["file:" + impl["status"]] += 1
            kinds = collections.Counter(n["k"] for n in tree_nodes(impl["tree"]))
            for k, c in kinds.items():
                result.stats["rec:" + k] += c
            sig = json.dumps(impl["tree"], sort_keys=True)
            if len(impl["tree"]["c"]) > 0:
                result.nontrivial.add(vlib.sha(r["case"]["rules"] + "\0" + r["case"]["data"]))
        if v.startswith("disagree") or v in ("model-broken",):
            d = slim(r)
            d["what"] = "%s: implementation and model differ (%s)" % (what, v)
            if v == "disagree-tree":
                d["impl_tree"] = r["impl"]["tree"]
                d["model_tree"] = r["model"]["tree"]
            result.disagreements.append(d)
        if v == "impl-died":
            rec = "c08_param_recursion" in globals() and c08_param_recursion(r["case"]["rules"])
            result.judge_failures.append({"what": ("implementation did not answer within the time limit (hang)" if impl.get("rc") == "timeout" else
                                                   "implementation process died (abort/stack overflow)") + (
                                              ": a parameterised rule calls itself" if rec else ""),
                                          "class": "c08-param-rule-recursion" if rec else "impl-died",
                                          "rules": r["case"]["rules"], "data": r["case"]["data"], "rc": impl.get("rc")})


def random_cases(seed, n, cfn=None):
    return [gen.G(seed * 1000003 + i).case(cfn) for i in range(n)]


def load_corpus(prop):
    d = os.path.join(VERIF, "corpus")
    out = []
    if os.path.isdir(d):
        for f in sorted(os.listdir(d)):
            if f.endswith(".json"):
                try:
                    c = json.load(open(os.path.join(d, f)))
                    if "rules" in c and "data" in c:
                        out.append({"rules": c["rules"], "data": c["data"], "corpus": f})
                except Exception:
                    pass
    return out


# =============================================================================== C13

def lit_text(v):
    """Guard literal text for a Python value, or None when the grammar cannot express it"""
    if v is None:
        return "null"
    if isinstance(v, bool):
        return "true" if v else "false"
    if isinstance(v, int):
        return str(v) if v != -9223372036854775808 else None
    if isinstance(v, float):
        if v < 0 or (v == 0 and str(v).startswith("-")):
            return None
        s = repr(v)
        if "e" in s and "e-" not in s and "e+" not in s:
            s = s.replace("e", "e+")
        return s if ("." in s or "e" in s) else s + ".0"
    if isinstance(v, str):
        if '"' in v or "\\" in v or "\n" in v or "\0" in v:
            return None
        return '"' + v + '"'
    if isinstance(v, list):
        xs = [lit_text(x) for x in v]
        return None if any(x is None for x in xs) else "[" + ", ".join(xs) + "]"
    if isinstance(v, dict):
        xs = [lit_text(x) for x in v.values()]
        if any(x is None for x in xs):
            return None
        return "{" + ", ".join('"%s": %s' % (k, x) for k, x in zip(v.keys(), xs)) + "}"
    return None


C13_UNIVERSE = [
    None, True, False,
    -9223372036854775808, -1, 0, 1, 2, 10, 9223372036854775807,
    0.0, -0.0, 1.5, -2.5, 1e308, 5e-324, 10.0, 1.0,
    "", "a", "b", "ab", "A", "é", "1", "true", "null", "/a/", "aé", "z",
    [], [1], [1, 2], [2, 1], ["a"], [[1]],
    {}, {"a": 1}, {"a": 1, "b": 2}, {"b": 2, "a": 1}, {"a": 2},
]

OPS6 = [("eq", "=="), ("ne", "!="), ("lt", "<"), ("le", "<="), ("gt", ">"), ("ge", ">=")]


def kind_of(v):
    if v is None:
        return "null"
    if isinstance(v, bool):
        return "bool"
    if isinstance(v, int):
        return "int"
    if isinstance(v, float):
        return "float"
    if isinstance(v, str):
        return "str"
    if isinstance(v, list):
        return "list"
    return "map"


def py_cmp(a, b):
    if isinstance(a, str):
        ka, kb = [ord(c) for c in a], [ord(c) for c in b]
    else:
        ka, kb = a, b
    return -1 if ka < kb else (1 if ka > kb else 0)


def run_C13(ctx):
    res = Result("single-clause programs `rule op { x OP <literal b> }` on document {x: a} for every ordered pair "
                 "(a, b) of the value universe and the six comparison operators (+ range brackets, in-list, regex); "
                 "a case is non-trivial when it evaluated (no parse error) and distinct by (a, b, operator family)")
    rng = random.Random(ctx.seed)
    universe = list(C13_UNIVERSE)
    if ctx.thorough():
        universe += [3, -7, 2.0, 1e-3, 123456789.25, "aa", "B", "ü", "10", "9", [1, 1], {"a": 1, "c": None}]
        for _ in range(60):
            bits = rng.getrandbits(64)
            import struct
            f = struct.unpack("<d", struct.pack("<Q", bits))[0]
            if f == f and abs(f) != float("inf"):
                universe.append(f)
    cases, meta = [], []
    for a in universe:
        for b in universe:
            lb = lit_text(b)
            if lb is None:
                continue
            rules = "\n".join("rule %s { x %s %s }" % (n, o, lb) for n, o in OPS6) + "\n"
            # the same comparisons under a prefix not (the negated comparator of operators.rs)
            rules += "\n".join("rule n_%s { not x %s %s }" % (n, o, lb) for n, o in OPS6 if n != "ne") + "\n"
            cases.append({"rules": rules, "data": json.dumps({"x": a})})
            meta.append(("six", a, b))
    # ranges
    nums = [v for v in universe if kind_of(v) in ("int", "float")]
    ints = [v for v in nums if kind_of(v) == "int" and abs(v) < 2 ** 62]
    flts = [v for v in nums if kind_of(v) == "float" and v >= 0 and lit_text(v)]
    brackets = [("r[%s,%s]", True, True), ("r(%s,%s)", False, False), ("r[%s,%s)", True, False), ("r(%s,%s]", False, True)]
    for pool in (ints, flts):
        trip = list(itertools.product(pool, pool, pool))
        rng.shuffle(trip)
        for x, lo, hi in trip[: (4000 if ctx.thorough() else 400)]:
            rules = "\n".join("rule b%d { x in %s }" % (i, fmt % (lit_text(lo), lit_text(hi))) for i, (fmt, _, _) in enumerate(brackets)) + "\n"
            cases.append({"rules": rules, "data": json.dumps({"x": x})})
            meta.append(("range", x, (lo, hi)))
    # in-list over scalars
    scal = [v for v in universe if kind_of(v) in ("null", "bool", "int", "str") and lit_text(v)]
    for _ in range(3000 if ctx.thorough() else 400):
        x = rng.choice(scal)
        lst = [rng.choice(scal) for _ in range(rng.choice([1, 2, 3]))]
        rules = "rule inl { x in %s }\nrule nin { x not in %s }\n" % (lit_text(lst), lit_text(lst))
        cases.append({"rules": rules, "data": json.dumps({"x": x})})
        meta.append(("inlist", x, lst))
    # regex
    strs = [v for v in universe if kind_of(v) == "str"]
    import re as _re
    # counted repetitions, classes, alternation, escapes: every piece of regex syntax is regex syntax (a pattern is never
    # matched as literal text)
    rxs = gen.REGEXES + ["a{3}", "xa{2,4}y", "ab{2}", "a{1}", "1{2}", "a|b", "a\\d", "[ab]b", "a.c", "a?b", "(ab)+", "a{3}$"]
    for rx in rxs:
        for s in strs + ["xaaay", "a{3}", "abb", "a{1}", "aaa", "11", "1{2}", "a|b", "a.c", "abc", "ad", "a1", "b", "abab"]:
            cases.append({"rules": "rule m { x == /%s/ }\nrule n { x != /%s/ }\nrule i { x in [/%s/, 'zz-never'] }\n" % (rx, rx, rx), "data": json.dumps({"x": s})})
            meta.append(("regex", s, rx))
    results = vlib.correspond(cases, ctx.hp, ctx.mp)
    absorb(res, results, "C13 comparison stream")
    res.nontrivial = set()
    eqm = {}
    for r, (fam, a, b) in zip(results, meta):
        impl = r["impl"]
        if impl.get("kind") != "ok":
            if fam == "six" and impl.get("kind") == "err" and impl.get("err") != "ParseError":
                res.judge_failures.append({"what": "comparison of loaded values raised %s" % impl.get("err"), "class": "c13-error",
                                           "rules": r["case"]["rules"], "data": r["case"]["data"]})
            continue
        st = dict((n, s) for n, s in impl["rules"])
        # the laws are about the values the tool LOADED: serde_json (run_checks' loader) rounds some decimal
        # spellings one ulp away from the correctly rounded double the rule parser produces; such a case
        # compares two different numbers and says nothing about the comparison algebra (it is C11's domain)
        if kind_of(a) == "float" and r.get("doc"):
            import struct as _st
            want = str(_st.unpack("<Q", _st.pack("<d", a))[0])
            got = [v.get("v") for v in (r["doc"].get("v") or []) if isinstance(v, dict) and v.get("t") == "float"]
            if got and got[0] != want:
                res.stats["skipped:data-float-rounded-differently-by-loader"] += 1
                continue
        res.nontrivial.add((fam, json.dumps(a), json.dumps(b)))
        fail = None
        if fam == "six":
            P = {n: st[n] == "PASS" for n, _ in OPS6}
            ka, kb = kind_of(a), kind_of(b)
            NP = {n: st.get("n_" + n) == "PASS" for n, _ in OPS6 if n != "ne"}
            if ka == kb and ka in ("int", "float", "str"):
                if any(NP[n] == P[n] for n in NP):
                    fail = "a comparable pair satisfies (or fails) a comparison under both polarities: %s / not: %s" % (P, NP)
            elif ka != kb and ka not in ("list",) and kb not in ("list",):
                if any(NP.values()):
                    fail = "values of different types satisfied a negated comparison: %s" % NP
            if ka == kb and ka in ("int", "float", "str"):
                c = py_cmp(a, b)
                exp = {"lt": c < 0, "eq": c == 0, "gt": c > 0, "le": c <= 0, "ge": c >= 0, "ne": c != 0}
                if fail:
                    pass
                elif P != exp:
                    fail = "same-type ordered scalars: expected %s got %s" % (exp, P)
                elif sum([P["lt"], P["eq"], P["gt"]]) != 1:
                    fail = "trichotomy violated"
            elif ka != kb and ka not in ("list",) and kb not in ("list",):
                if any(P.values()):
                    fail = "values of different types satisfied a comparison: %s" % P
            elif ka == kb and ka in ("null", "bool", "map"):
                # never strictly ordered; `<=`/`>=` may at most coincide with `==` (null compares Equal to null)
                if P["lt"] or P["gt"] or (P["le"] and not P["eq"]) or (P["ge"] and not P["eq"]):
                    fail = "unordered type satisfied an ordering comparison: %s" % P
                if ka != "map":
                    if P["eq"] != (a == b) or P["ne"] != (a != b):
                        fail = "== / != wrong on %s" % ka
            if a == b and kind_of(a) == kind_of(b) and json.dumps(a) == json.dumps(b) and not P["eq"] and not (ka == "list" and len(a) == 0 and False):
                # reflexivity on all loaded values (lists: element-wise; [] vs [] handled by the code as PASS)
                fail = fail or "== is not reflexive"
            eqm[(json.dumps(a), json.dumps(b))] = P["eq"]
            if ka == kb == "map" and P["eq"] != (a == b):
                fail = fail or "map equality must ignore key order and compare values"
            if ka == kb == "list" and all(kind_of(e) != "list" for e in a + b) and len(a) > 0 and len(b) > 0:
                pass
        elif fam == "range":
            lo, hi = b
            exp = {}
            for i, (_, li, ui) in enumerate(brackets):
                exp["b%d" % i] = ((lo <= a) if li else (lo < a)) and ((a <= hi) if ui else (a < hi))
            got = {k: st[k] == "PASS" for k in exp}
            if got != exp:
                fail = "range membership: expected %s got %s" % (exp, got)
        elif fam == "inlist":
            def eqv(x, y):
                return kind_of(x) == kind_of(y) and x == y
            exp = any(eqv(a, e) for e in b)
            if (st["inl"] == "PASS") != exp or (st["nin"] == "PASS") != (not exp):
                fail = "x in [..]: expected %s, got in=%s not-in=%s" % (exp, st["inl"], st["nin"])
        elif fam == "regex":
            try:
                pyre = b.replace("(?i)", "")
                flags = _re.I if "(?i)" in b else 0
                exp = _re.search(pyre, a, flags) is not None
                if (st["m"] == "PASS") != exp or (st["n"] == "PASS") != (not exp):
                    fail = "regex match: expected %s got ==%s !=%s" % (exp, st["m"], st["n"])
            except _re.error:
                pass
        if fail:
            res.judge_failures.append({"what": "C13 law violated by the implementation: " + fail, "class": "c13-law",
                                       "rules": r["case"]["rules"], "data": r["case"]["data"], "observed": impl["rules"]})
        else:
            res.add_sample({"family": fam, "a": a, "b": b, "verdicts": impl["rules"]})
    # symmetry of == over the matrix
    for (a, b), v in eqm.items():
        if (b, a) in eqm and eqm[(b, a)] != v:
            la, lb = json.loads(a), json.loads(b)
            if kind_of(la) != "list" and kind_of(lb) != "list":
                res.judge_failures.append({"what": "== is not symmetric on %s / %s" % (a, b), "class": "c13-law", "a": a, "b": b})
    return res


# =============================================================================== evaluator tie (shared)

def evaluator_stream(ctx, res, n_quick, n_thorough, what, cfn=None):
    n = n_thorough if ctx.thorough() else n_quick
    cases = load_corpus(ctx.prop) + random_cases(ctx.seed, n, cfn)
    results = vlib.correspond(cases, ctx.hp, ctx.mp, detail=True)
    absorb(res, results, what)
    for r in results[:3]:
        if r["impl"].get("kind") == "ok":
            res.add_sample({"rules": r["case"]["rules"], "data": r["case"]["data"], "verdicts": r["impl"]["rules"]})
    return results


REGISTRY = {}


def register(prop, modules, run, needs_cli=False):
    REGISTRY[prop] = {"modules": modules, "run": run, "needs_cli": needs_cli}


register("C13", ["Guard.Properties.C13"], run_C13)


# =============================================================================== C02

LEAF = {"P": "p == 1", "F": "p == 2", "S": "l[ x == 9 ].y == 1"}
C02_D = {"p": 1, "l": [{"x": 1, "y": 1}]}
C02_DOC = dict(C02_D, ctx=C02_D, wrap=[C02_D])


def cnf_text(shape):
    """shape: list of lines, each a string over P/F/S"""
    return "\n".join(" or ".join(LEAF[c] for c in line) for line in shape)


def cnf_shapes(maxlines, maxalts):
    alts = []
    for n in range(1, maxalts + 1):
        alts += ["".join(t) for t in itertools.product("PFS", repeat=n)]
    for nl in range(1, maxlines + 1):
        for lines in itertools.product(alts, repeat=nl):
            yield list(lines)


def spec_line(line):
    return "P" if "P" in line else ("F" if "F" in line else "S")


def spec_body(lines):
    sts = [spec_line(l) for l in lines]
    return "F" if "F" in sts else ("P" if "P" in sts else "S")


SITE_TEMPLATES = {
    # site -> (rules text with {CNF}, how the rule `r` status follows from the CNF status)
    "rule-body": ("rule r {\n{CNF}\n}\n", lambda b: b),
    "when-cond": ("rule r when {CNF} {\np == 1\n}\n", lambda b: "P" if b == "P" else "S"),
    "block-body": ("rule r {\nctx {\n{CNF}\n}\n}\n", lambda b: b),
    "when-block": ("rule r {\nwhen p == 1 {\n{CNF}\n}\n}\n", lambda b: b),
    "filter-body": ("rule r {\nwrap[ {CNF} ] !empty\n}\n", lambda b: "P" if b == "P" else "F"),
    "file": (None, None),
}
FULL = {"P": "PASS", "F": "FAIL", "S": "SKIP"}


def model_tree_request(i, tree):
    return {"id": i, "op": "consistent", "tree": tree}


def judge_consistent(ctx, res, results, label):
    """run the Lean `Consistent` predicate on the IMPLEMENTATION's record trees"""
    reqs, idx = [], []
    for i, r in enumerate(results):
        if r["impl"].get("kind") == "ok":
            reqs.append(model_tree_request(i, r["impl"]["tree"]))
            idx.append(i)
    resp = ctx.mp.map(reqs)
    for i, m in zip(idx, resp):
        r = results[i]
        res.stats["consistent-judged"] += 1
        res.stats["tree-nodes"] += m.get("size", 0)
        if not m.get("consistent", False):
            res.judge_failures.append({
                "what": "%s: a composite record of the implementation's tree is not explained by its children (node path %s)" % (label, m.get("bad")),
                "class": "c02-inconsistent", "rules": r["case"]["rules"], "data": r["case"]["data"],
                "tree": r["impl"]["tree"], "bad_path": m.get("bad")})
        t = r["impl"]["tree"]
        if t["k"] != "FileCheck" or t["s"] != r["impl"]["status"]:
            res.judge_failures.append({"what": "root record is not the FileCheck carrying the returned status",
                                       "class": "c02-root", "rules": r["case"]["rules"], "data": r["case"]["data"]})


def run_C02(ctx):
    res = Result("(a) random rule files of the wide language (type blocks, parameterised rules, functions, nested when/"
                 "blocks) x documents, whole record trees compared with the model and judged by `Consistent`; (b) all CNF "
                 "shapes up to L lines x A alternatives with leaves forced to PASS/FAIL/SKIP at five sites + the file; "
                 "non-trivial = evaluated to a tree with at least one rule, distinct by (rules, data) text")
    results = evaluator_stream(ctx, res, 1500, 30000, "C02 record trees")
    judge_consistent(ctx, res, results, "random programs")
    # exhaustive CNF shapes
    maxl, maxa = (3, 3) if ctx.thorough() else (2, 2)
    shapes = list(cnf_shapes(maxl, maxa))
    if ctx.thorough():
        rng = random.Random(ctx.seed)
        rng.shuffle(shapes)
        shapes = shapes[:6000]
    cases, meta = [], []
    for sh in shapes:
        for site, (tmpl, f) in SITE_TEMPLATES.items():
            if site == "file":
                # each line becomes its own rule; file status = body aggregation over rule statuses
                rules = "".join("rule r%d {\n%s\n}\n" % (i, " or ".join(LEAF[c] for c in line)) for i, line in enumerate(sh))
                exp_rules = [["r%d" % i, FULL[spec_line(line)]] for i, line in enumerate(sh)]
                exp_file = FULL[spec_body(sh)]
            else:
                rules = tmpl.replace("{CNF}", cnf_text(sh) if site not in ("when-cond", "filter-body") else cnf_text(sh).replace("\n", "\n  "))
                st = f(spec_body(sh))
                exp_rules = [["r", FULL[st]]]
                exp_file = FULL[st]
            cases.append({"rules": rules, "data": json.dumps(C02_DOC)})
            meta.append((site, sh, exp_rules, exp_file))
    results2 = vlib.correspond(cases, ctx.hp, ctx.mp, detail=True)
    absorb(res, results2, "C02 CNF shapes")
    judge_consistent(ctx, res, results2, "CNF shapes")
    for r, (site, sh, exp_rules, exp_file) in zip(results2, meta):
        impl = r["impl"]
        res.stats["cnf-site:" + site] += 1
        if impl.get("kind") != "ok":
            res.judge_failures.append({"what": "CNF shape did not evaluate: %s" % impl, "class": "c02-cnf-error",
                                       "rules": r["case"]["rules"], "data": r["case"]["data"]})
            continue
        if impl["rules"] != exp_rules or impl["status"] != exp_file:
            res.judge_failures.append({"what": "CNF aggregation at site %s: shape %s expected rules %s file %s, got %s %s" % (
                site, sh, exp_rules, exp_file, impl["rules"], impl["status"]), "class": "c02-cnf",
                "rules": r["case"]["rules"], "data": r["case"]["data"]})
    res.extra["exhaustive_cnf"] = {"max_lines": maxl, "max_alternatives": maxa, "shapes": len(shapes), "sites": len(SITE_TEMPLATES)}
    return res


register("C02", ["Guard.Properties.C02"], run_C02)


# =============================================================================== C03

C03_DOC = {"s": 1, "t": "ab", "l": [1, 2, 3], "e": [], "m": {"a": 1}, "n": None, "f": 1.5, "b": True,
           "lm": [{"x": 1, "y": 5}, {"x": 2, "y": 6}], "o": [1], "q": 2, "ls": ["ab", "c"], "mx": [{"t": 1}, {}, {"t": []}]}
C03_LETS = ("let vmiss = zz\nlet vmix = mx[*].t\nlet vs = s\nlet vl = l\nlet vlit = [1, 2]\nlet vfilt = lm[ x == 9 ]\n"
            "let vsome = some mx[*].t\nlet ve = e\n")
C03_QUERIES = ["s", "t", "l", "l[*]", "e", "e[*]", "m", "m.a", "m.*", "n", "f", "b", "zz", "m.zz", "lm[*].x",
               "lm[ x == 1 ].y", "lm[ x == 9 ].y", "o", "l[0]", "ls[*]", "some l[*]", "some lm[*].zz", "some zz",
               # variable heads, queries that end in a filter, selections mixing resolved and missing values
               "%vmiss", "%vmix", "%vs", "%vl", "%vl[*]", "%vlit", "%vlit[*]", "%vfilt", "%vsome", "%ve", "some %vmix", "mx[*].t",
               "lm[ x == 9 ]", "lm[ x == 1 ]", "some mx[*].t", "%vmiss.a", "%vfilt.y"]
C03_RHS = ["1", "2", "0", "\"ab\"", "\"a\"", "1.5", "true", "null", "[1, 2]", "[1]", "[\"ab\", 1]", "[]", "r[0,2]",
           "/a/", "q", "l", "l[*]", "zz", "{\"a\": 1}", "[[1]]"]
UNARY = ["exists", "empty", "is_string", "is_list", "is_struct", "is_bool", "is_int", "is_float", "is_null"]


def run_C03(ctx):
    res = Result("exhaustive operator x polarity x left-hand shape x right-hand shape single-clause programs; each case "
                 "holds the rules whose verdicts the property relates (prefix not vs operator not, double negation, flip, "
                 "named and parameterised references); non-trivial = evaluated, distinct by (query, operator, rhs)")
    rng = random.Random(ctx.seed)
    cases, meta = [], []
    nots = ["not ", "NOT ", "!"]
    for q in C03_QUERIES:
        some = ""
        qq = q
        if q.startswith("some "):
            some, qq = "some ", q[5:]
        # unary
        for op in UNARY:
            n = rng.choice(nots)
            rules = C03_LETS + ("rule plain { %s%s %s }\nrule opnot { %s%s !%s }\nrule pre { %s%s%s %s }\nrule dbl { %s%s%s !%s }\n"
                     % (some, qq, op, some, qq, op, n, some, qq, op, n, some, qq, op))
            cases.append({"rules": rules, "data": json.dumps(C03_DOC)})
            meta.append(("unary", q, op, None))
        # binary
        for rhs in C03_RHS:
            n = rng.choice(nots)
            rules = C03_LETS + ("rule eq { %s%s == %s }\nrule ne { %s%s != %s }\nrule pre_eq { %s%s%s == %s }\nrule pre_ne { %s%s%s != %s }\n"
                     "rule inn { %s%s in %s }\nrule nin { %s%s not in %s }\nrule pre_in { %s%s%s in %s }\nrule pre_nin { %s%s%s !in %s }\n"
                     % (some, qq, rhs, some, qq, rhs, n, some, qq, rhs, n, some, qq, rhs,
                        some, qq, rhs, some, qq, rhs, n, some, qq, rhs, n, some, qq, rhs))
            for nm, o in [("gt", ">"), ("ge", ">="), ("lt", "<"), ("le", "<=")]:
                rules += "rule %s { %s%s %s %s }\nrule pre_%s { %s%s%s %s %s }\n" % (nm, some, qq, o, rhs, nm, n, some, qq, o, rhs)
            cases.append({"rules": rules, "data": json.dumps(C03_DOC)})
            meta.append(("binary", q, None, rhs))
    # named / parameterised references
    for body, st in [("s == 1", "PASS"), ("s == 2", "FAIL"), ("lm[ x == 9 ].y == 1", "SKIP")]:
        rules = ("rule base {\n%s\n}\nrule pos {\nbase\n}\nrule neg {\nnot base\n}\nrule bang {\n!base\n}\n"
                 "rule chk(v) {\n%%v == 1\n}\nrule cpos {\nchk(%s)\n}\nrule cneg {\nnot chk(%s)\n}\n"
                 % (body, "s" if st != "FAIL" else "q", "s" if st != "FAIL" else "q"))
        cases.append({"rules": rules, "data": json.dumps(C03_DOC)})
        meta.append(("named", body, st, None))
    results = vlib.correspond(cases, ctx.hp, ctx.mp, detail=True)
    absorb(res, results, "C03 negation stream")
    res.nontrivial = set()
    flip = {"PASS": "FAIL", "FAIL": "PASS", "SKIP": "SKIP"}
    scalar_single = {"s", "t", "n", "f", "b", "m.a", "l[0]", "q"}
    for r, (fam, q, op, rhs) in zip(results, meta):
        impl = r["impl"]
        if impl.get("kind") == "err":
            res.stats["c03-error-cases"] += 1
            continue
        if impl.get("kind") != "ok":
            continue
        st = dict((n, s) for n, s in impl["rules"])
        res.nontrivial.add((fam, q, op, rhs))
        bad = []
        if fam == "unary":
            if st["pre"] != st["opnot"]:
                bad.append("`not X %s` (%s) differs from `X !%s` (%s)" % (op, st["pre"], op, st["opnot"]))
            if st["dbl"] != st["plain"]:
                bad.append("`not X !%s` (%s) differs from `X %s` (%s)" % (op, st["dbl"], op, st["plain"]))
            if st["pre"] == st["plain"] and st["plain"] != "SKIP" and not q.startswith("some") and q in scalar_single | {"zz", "m.zz", "e", "l", "m"}:
                bad.append("prefix not ignored on unary %s: both %s" % (op, st["plain"]))
        elif fam == "binary":
            if st["pre_eq"] != st["ne"]:
                bad.append("`not X == v` (%s) differs from `X != v` (%s)" % (st["pre_eq"], st["ne"]))
            if st["pre_ne"] != st["eq"]:
                bad.append("`not X != v` (%s) differs from `X == v` (%s)" % (st["pre_ne"], st["eq"]))
            if st["pre_in"] != st["nin"]:
                bad.append("`not X in L` (%s) differs from `X not in L` (%s)" % (st["pre_in"], st["nin"]))
            if st["pre_nin"] != st["inn"]:
                bad.append("`not X not in L` (%s) differs from `X in L` (%s)" % (st["pre_nin"], st["inn"]))
            for nm in ("eq", "inn", "gt", "ge", "lt", "le"):
                pre = st["pre_" + ("in" if nm == "inn" else nm)]
                if (st[nm] == "SKIP") != (pre == "SKIP"):
                    bad.append("SKIP does not stay SKIP under not for %s: %s vs %s" % (nm, st[nm], pre))
            # single comparable value: flip
            if q in ("s", "q", "m.a", "l[0]") and rhs in ("1", "2", "0"):
                for nm in ("eq", "gt", "ge", "lt", "le"):
                    if st["pre_" + nm] != flip[st[nm]]:
                        bad.append("single comparable value: `not X %s v` is %s but `X %s v` is %s" % (nm, st["pre_" + nm], nm, st[nm]))
                if (st["pre_gt"] == "PASS") != (st["le"] == "PASS") or (st["pre_lt"] == "PASS") != (st["ge"] == "PASS"):
                    bad.append("`not X > v` must hold exactly when `X <= v` does")
        else:
            base = st["base"]
            if base != op:
                bad.append("setup: base rule expected %s got %s" % (op, base))
            if (st["pos"] == "PASS") != (base == "PASS") or st["pos"] == "SKIP":
                bad.append("named reference: pos=%s base=%s" % (st["pos"], base))
            for k in ("neg", "bang"):
                if (st[k] == "PASS") != (base != "PASS") or st[k] == "SKIP":
                    bad.append("`not R`: %s=%s while R=%s" % (k, st[k], base))
            if (st["cneg"] == "PASS") == (st["cpos"] == "PASS"):
                bad.append("`not f(x)` is ignored: cpos=%s cneg=%s" % (st["cpos"], st["cneg"]))
        for b in bad:
            res.judge_failures.append({"what": "negation: " + b, "class": "c03-negation", "rules": r["case"]["rules"],
                                       "data": r["case"]["data"], "observed": impl["rules"]})
        if not bad:
            res.add_sample({"query": q, "op": op, "rhs": rhs, "verdicts": impl["rules"][:6]})
    # plus random programs for the tie of the clause evaluator
    evaluator_stream(ctx, res, 600, 10000, "C03 random programs")
    return res


register("C03", ["Guard.Properties.C03"], run_C03)


# =============================================================================== C01

def spec_requests(results):
    reqs, idx = [], []
    for i, r in enumerate(results):
        if r.get("ast") is not None and r.get("doc") is not None:
            e = vlib.env_request(r["ast"], r["doc"])
            reqs.append((i, e))
    return reqs


def judge_spec(ctx, res, results, label):
    """the documented-semantics Spec (Lean) against the IMPLEMENTATION's verdicts"""
    pre = spec_requests(results)
    envs = ctx.hp.map([dict(e, id=i) for i, e in pre])
    reqs = []
    for (i, _), env in zip(pre, envs):
        env = dict(env)
        env.pop("id", None)
        reqs.append({"id": i, "op": "spec", "ast": results[i]["ast"], "doc": results[i]["doc"], "env": env})
    resp = ctx.mp.map(reqs)
    for (i, _), m in zip(pre, resp):
        r = results[i]
        impl = r["impl"]
        sp = m.get("spec")
        res.stats["spec:" + str(sp)] += 1
        if sp == "ok":
            if impl.get("kind") == "ok":
                if impl["rules"] != m["rules"] or impl["status"] != m["status"]:
                    res.judge_failures.append({
                        "what": "%s: reported statuses differ from the documented semantics: tool %s/%s, spec %s/%s" % (
                            label, impl["rules"], impl["status"], m["rules"], m["status"]),
                        "class": "c01-verdict", "rules": r["case"]["rules"], "data": r["case"]["data"]})
                else:
                    res.stats["spec-agree"] += 1
                    res.nontrivial.add(vlib.sha(r["case"]["rules"] + "\0" + r["case"]["data"]))
            elif impl.get("kind") == "err":
                res.judge_failures.append({
                    "what": "%s: the tool raised %s where the documented semantics is defined (%s)" % (label, impl.get("err"), m["rules"]),
                    "class": "c01-spurious-error", "rules": r["case"]["rules"], "data": r["case"]["data"]})
        elif sp == "undefined":
            if impl.get("kind") == "ok":
                res.judge_failures.append({
                    "what": "%s: the documented semantics is undefined (evaluation error expected) but the tool answered %s" % (label, impl["rules"]),
                    "class": "c01-missing-error", "rules": r["case"]["rules"], "data": r["case"]["data"]})
            else:
                res.stats["spec-agree-error"] += 1


def core_cases(seed, n):
    out = []
    for i in range(n):
        g = gen.G(seed * 7000003 + i, core=True)
        d = g.doc()
        out.append({"rules": g.rules_file(d, depth=2, cfn=False), "data": json.dumps(d)})
    return out


def single_clause_cases(ctx):
    """the exhaustive single-clause stream over a fixed value universe"""
    doc = {"k": None}
    vals = [None, True, 0, 1, 1.5, "", "a", [], [1], [1, 2], ["a", 1], {}, {"x": 1}, [{"x": 1}, {"x": 2}], {"x": [1, 2]},
            -0.0, [0.0, -0.0, 1.5]]        # negative zero: equal to zero, not below it
    shapes = ["k", "k.*", "k[*]", "k[0]", "k.x", "k[ x == 1 ]", "k[*].x", "k[ x exists ].x", "zz"]
    rhs = ["1", "2", "\"a\"", "\"\"", "1.5", "true", "null", "[1, 2]", "[1]", "[]", "r[0,1]", "{\"x\": 1}", "/a/", "0.0", "r[0.0,1.5]"]
    cases = []
    rng = random.Random(ctx.seed)
    for v in vals:
        d = json.dumps({"k": v})
        for sh in shapes:
            for some in ("", "some "):
                for neg in ("", "not "):
                    lines = []
                    for op in UNARY:
                        lines.append("rule u_%s { %s%s%s %s }" % (op, neg, some, sh, op))
                        lines.append("rule n_%s { %s%s%s !%s }" % (op, neg, some, sh, op))
                    cases.append({"rules": "\n".join(lines) + "\n", "data": d})
                    sel = rhs if ctx.thorough() else (rng.sample(rhs, 3) + (["0.0"] if isinstance(v, (float, list)) and v not in ([], [1], [1, 2]) else []))
                    for r in sel:
                        lines = []
                        for nm, o in [("eq", "=="), ("ne", "!="), ("gt", ">"), ("ge", ">="), ("lt", "<"), ("le", "<="), ("in", "in"), ("nin", "not in")]:
                            lines.append("rule b_%s { %s%s%s %s %s }" % (nm, neg, some, sh, o, r))
                        cases.append({"rules": "\n".join(lines) + "\n", "data": d})
    return cases


def run_C01(ctx):
    res = Result("(a) exhaustive single-clause programs: 15 values x 9 query shapes x all/some x prefix-not x "
                 "(9 unary x 2 polarities | 8 binary operators x literal right-hand sides); (b) random core-fragment rule "
                 "files x documents.  Every case is evaluated by the implementation, by the model (correspondence) and "
                 "by the documented-semantics Spec (judge); non-trivial = inside the Spec's fragment and evaluated")
    cases = load_corpus("C01") + single_clause_cases(ctx)
    results = vlib.correspond(cases, ctx.hp, ctx.mp)
    absorb(res, results, "C01 single-clause stream")
    res.nontrivial = set()
    judge_spec(ctx, res, results, "single clause")
    n = 20000 if ctx.thorough() else 2000
    cases2 = core_cases(ctx.seed, n)
    results2 = vlib.correspond(cases2, ctx.hp, ctx.mp)
    absorb(res, results2, "C01 core programs")
    judge_spec(ctx, res, results2, "core program")
    # (c) the grammar above the clause level is not modelled (the Spec and the model read the PARSER's output), so the
    # documented reading of a file is also checked on the text: clauses written outside any rule are the rule `default`
    # - lines are AND-ed, `or` joins alternatives of one line - exactly like the same lines inside a named rule
    import re as _re
    cases3, pairs = [], []
    for i in range(3000 if ctx.thorough() else 300):
        g = gen.SG(ctx.seed * 3700001 + i, core=True)
        d = g.doc()
        p = g.program(d)
        r0 = p["rules"][0]
        if r0["lets"] or not all("\n" not in a and not _re.match(r"^(not |!)?r\d", a) and not a.lstrip().startswith(("when", "WHEN")) for l in r0["lines"] for a in l):
            continue
        body = "\n".join(" or ".join(l) for l in r0["lines"])
        pairs.append((len(cases3), len(cases3) + 1))
        cases3.append({"rules": "\n".join(p["lets"]) + "\nrule named {\n" + body + "\n}\n", "data": json.dumps(d)})
        cases3.append({"rules": "\n".join(p["lets"]) + "\n" + body + "\n", "data": json.dumps(d)})
    results3 = vlib.correspond(cases3, ctx.hp, ctx.mp)
    absorb(res, results3, "C01 file-level clauses")
    for a, b in pairs:
        ia, ib = results3[a]["impl"], results3[b]["impl"]
        if ia.get("kind") != "ok" or ib.get("kind") not in ("ok", "err"):
            continue
        res.stats["c01-file-level-compared"] += 1
        sa = dict((n_, s_) for n_, s_ in ia["rules"]).get("named")
        sb = (dict((base_rule_name(n_), s_) for n_, s_ in ib["rules"]).get("default") if ib.get("kind") == "ok" else "ERR")
        if sa != sb:
            res.judge_failures.append({"what": "the clauses give %s inside a rule and %s written at file level (the default rule)" % (sa, sb),
                                       "class": "c01-file-level", "rules": results3[b]["case"]["rules"],
                                       "base_rules": results3[a]["case"]["rules"], "data": results3[b]["case"]["data"]})
    for r in (results + results2)[:2]:
        res.add_sample({"rules": r["case"]["rules"][:400], "data": r["case"]["data"], "impl": r["impl"].get("rules")})
    return res


register("C01", ["Guard.Properties.C01"], run_C01)


# =============================================================================== C04

def uses_capture(ast):
    s = json.dumps(ast)
    import re as _re
    return bool(_re.search(r'"t": "(filter|allValues|allIndices|keys)", "name": "', s))


KC_DOC = {"Resources": {"a": {"Type": "X"}, "b": {"Type": "X"}}}


def c04_known_cases():
    base = {"lets": [], "rules": [{"name": "once", "lets": ["let c = count(%n)"],
                                   "lines": [["Resources[ n | Type exists ] !empty"], ["%c == 2"]]}]}
    return [(base, KC_DOC)]


def variants(rng, p, limit=10):
    """(label, program) variants that C04 says must not change any verdict"""
    import copy
    out = []
    rules = p["rules"]
    # permute lines of one rule
    cand = [i for i, r in enumerate(rules) if len(r["lines"]) > 1]
    if cand:
        i = rng.choice(cand)
        perms = list(itertools.permutations(range(len(rules[i]["lines"]))))[1:]
        rng.shuffle(perms)
        for pm in perms[: (23 if len(perms) <= 23 else 8)][:limit]:
            q = copy.deepcopy(p)
            q["rules"][i]["lines"] = [rules[i]["lines"][k] for k in pm]
            out.append(("permute-lines", q))
    # permute alternatives of one line
    cand = [(i, j) for i, r in enumerate(rules) for j, l in enumerate(r["lines"]) if len(l) > 1]
    if cand:
        i, j = rng.choice(cand)
        perms = list(itertools.permutations(range(len(rules[i]["lines"][j]))))[1:]
        for pm in perms[:5]:
            q = copy.deepcopy(p)
            q["rules"][i]["lines"][j] = [rules[i]["lines"][j][k] for k in pm]
            out.append(("permute-alternatives", q))
    # repeat a line / an alternative
    i = rng.randrange(len(rules))
    j = rng.randrange(len(rules[i]["lines"]))
    q = copy.deepcopy(p)
    q["rules"][i]["lines"].insert(rng.randrange(len(rules[i]["lines"]) + 1), list(rules[i]["lines"][j]))
    out.append(("repeat-line", q))
    q = copy.deepcopy(p)
    q["rules"][i]["lines"][j].append(rng.choice(rules[i]["lines"][j]))
    out.append(("repeat-alternative", q))
    # permute rules
    if len(rules) > 1:
        perms = list(itertools.permutations(range(len(rules))))[1:]
        rng.shuffle(perms)
        for pm in perms[:5]:
            q = copy.deepcopy(p)
            q["rules"] = [rules[k] for k in pm]
            out.append(("permute-rules", q))
    # duplicate a rule under a new name
    q = copy.deepcopy(p)
    clone = copy.deepcopy(rules[i])
    clone["name"] = "clone"
    q["rules"].insert(rng.randrange(len(rules) + 1), clone)
    out.append(("duplicate-rule:" + rules[i]["name"], q))
    return out


def run_C04(ctx):
    res = Result("structured random programs (no key captures; named references only to earlier rules) x documents, each "
                 "with its variants: all permutations of the lines of a rule (<= 4 lines, sampled beyond), permutations of "
                 "the alternatives of a line, a repeated line, a repeated alternative, permutations of the rules, a rule "
                 "duplicated under a new name; verdicts of the implementation are compared across the class (classes in "
                 "which some ordering raises an error are discarded); non-trivial = class of >= 2 evaluated variants")
    rng = random.Random(ctx.seed)
    n = 6000 if ctx.thorough() else 350
    groups = []   # (base_index, [(label, case_index)])
    dup_groups = []
    cases = []
    bases = []
    for i in range(n):
        g = gen.SG(ctx.seed * 5000011 + i)
        d = g.doc()
        bases.append((g.program(d), d, False))
    # keys written in two spelling conventions, queried in a third: which spelling a query resolves to must not depend
    # on what was resolved before it (the key-case fallback is per query)
    CASE_DOC = {"Resources": {"b": {"Properties": {"Enabled": True, "maxSize": 3}}},
                "Settings": {"bucketName": "alpha", "BucketName": "beta", "retentionDays": 1, "RetentionDays": 2},
                "max_size": "m", "MaxSize": "M"}
    CASE_LINES = ["Resources.b.properties.Enabled == true", "Settings.bucket_name == 'alpha'", "Settings.'bucket-name' == 'alpha'",
                  "Settings.retention_days == 1", "this.'Max-Size' == 'M'", "maxSize == 'm'", "Resources.b.Properties.max_size == 3",
                  "Settings.bucket_name == 'beta'", "resources.b.properties.enabled exists"]
    for i in range(30 if ctx.thorough() else 10):
        ls = rng.sample(CASE_LINES, rng.choice([2, 3, 4]))
        rules_ = [{"name": "r0", "lets": [], "lines": [[l] for l in ls]}]
        if rng.random() < 0.5:
            rules_.append({"name": "r1", "lets": [], "lines": [[l] for l in rng.sample(CASE_LINES, 2)]})
        bases.append(({"lets": [], "rules": rules_}, CASE_DOC, False))
    # rules that refer to each other in a cycle: an error in every order on the current tree (the class is then
    # discarded); if a cycle ever evaluates, its verdicts must not depend on the order of the rules
    for body in (["b or x == 1"], ["b or x == 2"], ["b", "x == 1"], ["not b or x == 1"]):
        for third in (["b"], ["a"], ["not a or b"]):
            bases.append(({"lets": [], "rules": [{"name": "a", "lets": [], "lines": [[alt for alt in l.split(" or ")] for l in body]},
                                                  {"name": "b", "lets": [], "lines": [["a"]]},
                                                  {"name": "c", "lets": [], "lines": [[alt for alt in l.split(" or ")] for l in third]}]},
                          {"x": 1}, False))
    # one rule name defined several times under different guards (the name then has a LIST of statuses), referenced by
    # other rules: neither the reference nor any listing may depend on the order of the definitions
    # (guards under which at most ONE definition applies: with two applicable definitions the first non-SKIP one names the
    # status of the rule, which is an ordered choice by design)
    for ga, gb in (("x == 1", "x == 2"), ("x == 2", "x == 1"), ("x == 3", "x == 2"), ("y exists", "x == 1")):
        for ba, bb in (("x == 1", "x == 5"), ("x == 5", "x == 1"), ("x == 5", "x == 6")):
            bases.append(({"lets": [], "rules": [{"name": "sized", "lets": [], "lines": [["when %s {\n%s\n}" % (ga, ba)]]},
                                                  {"name": "sized", "lets": [], "lines": [["when %s {\n%s\n}" % (gb, bb)]]},
                                                  {"name": "check", "lets": [], "lines": [["sized"]]},
                                                  {"name": "ncheck", "lets": [], "lines": [["not sized"]]}]},
                          {"x": 1}, "dup"))
    for p, d, known in bases:
        data = json.dumps(d)
        bi = len(cases)
        cases.append({"rules": gen.print_program(p), "data": data})
        vs = []
        for label, q in variants(rng, p):
            vs.append((label, len(cases)))
            cases.append({"rules": gen.print_program(q), "data": data})
        groups.append((bi, vs))
        if known == "dup":
            dup_groups.append((bi, vs))
    results = vlib.correspond(cases, ctx.hp, ctx.mp)
    absorb(res, results, "C04 variants")
    res.nontrivial = set()
    # canonical replays of the listed known findings (reported as KNOWN-FINDING while they still fail)
    kdir = os.path.join(VERIF, "corpus", "known")
    for f in sorted(os.listdir(kdir)) if os.path.isdir(kdir) else []:
        k = json.load(open(os.path.join(kdir, f)))
        if k.get("property") != "C04":
            continue
        pair = vlib.correspond([{"rules": k["rules_once"], "data": k["data"]}, {"rules": k["rules_twice"], "data": k["data"]}], ctx.hp, ctx.mp)
        absorb(res, pair, "C04 known-finding replay")
        a, b = pair[0]["impl"], pair[1]["impl"]
        if a.get("kind") == "ok" and b.get("kind") == "ok" and a["rules"] != b["rules"]:
            res.judge_failures.append({"what": "repeating a capturing clause changes the verdict: %s vs %s" % (a["rules"], b["rules"]),
                                       "class": "c04-key-capture", "rules": k["rules_twice"], "base_rules": k["rules_once"], "data": k["data"]})
    for bi, vs in groups:
        base = results[bi]
        if base["impl"].get("kind") != "ok":
            res.stats["c04-class-base-" + base["impl"].get("kind", "?")] += 1
            continue
        if any(results[k]["impl"].get("kind") != "ok" for _, k in vs):
            res.stats["c04-class-discarded-error"] += 1
            continue
        def by_name(rs):
            out_ = {}
            for n_, s_ in rs:
                out_.setdefault(n_, []).append(s_)
            return {k_: (v_[0] if len(v_) == 1 else tuple(sorted(v_))) for k_, v_ in out_.items()}     # a name defined twice: the multiset
        bst = by_name(base["impl"]["rules"])
        res.nontrivial.add(bi)
        for label, k in vs:
            v = results[k]["impl"]
            vst = by_name(v["rules"])
            res.stats["c04-variant:" + label.split(":")[0]] += 1
            bad = None
            for name, s in bst.items():
                if vst.get(name) != s:
                    bad = "rule %s is %s in the base program and %s after %s" % (name, s, vst.get(name), label)
            if v["status"] != base["impl"]["status"]:
                bad = bad or "file status %s became %s after %s" % (base["impl"]["status"], v["status"], label)
            if label.startswith("duplicate-rule:") and not isinstance(bst.get(label.split(":", 1)[1]), tuple) and vst.get("clone") != bst.get(label.split(":", 1)[1]):
                bad = bad or "the duplicated rule has status %s, its original %s" % (vst.get("clone"), bst.get(label.split(":", 1)[1]))
            if bad:
                cap = uses_capture(base.get("ast")) if base.get("ast") else False
                res.judge_failures.append({"what": "order/repetition changes a verdict: " + bad,
                                           "class": "c04-key-capture" if cap else "c04-order",
                                           "rules": results[k]["case"]["rules"], "base_rules": base["case"]["rules"],
                                           "data": base["case"]["data"], "base_verdicts": base["impl"]["rules"],
                                           "variant_verdicts": v["rules"]})
        res.add_sample({"rules": base["case"]["rules"][:300], "variants": [l for l, _ in vs], "verdicts": base["impl"]["rules"]})
    return res


register("C04", ["Guard.Properties.C04"], run_C04)


# =============================================================================== C15

def run_C15(ctx):
    res = Result("for random (document, query, operator, right-hand side): the clause written in place vs the same clause "
                 "with the query (whole, or a prefix of it) or the literal bound to a `let` at file, rule and block scope, "
                 "with an unused (even erroring) variable added, referenced twice, shadowed, and through a parameterised "
                 "rule; a `when` condition through an outer variable that the guarded block re-declares; `%v[n]` vs `q[n]`; implementation verdicts must coincide; non-trivial = the in-place program evaluated without error")
    n = 4000 if ctx.thorough() else 400
    cases, groups = [], []
    for i in range(n):
        g = gen.G(ctx.seed * 3000017 + i, core=True)
        d = g.doc()
        # a query with at least two parts so that a prefix can be abstracted
        q, sample = g.walk(d, [], 1)
        if q.startswith("this") or "%" in q:
            continue
        op = g.ch(["==", "!=", ">", "<=", "in", "not in", "exists", "!exists", "is_string", "is_list", "empty", "!empty"])
        unary = op[0].isalpha() and op not in ("in", "not in") or op.startswith("!")
        rhs = "" if unary else g.literal(sample)
        some = "some " if g.p(0.15) else ""
        neg = "not " if g.p(0.15) else ""
        def clause(lhs):
            return ("%s%s%s %s %s" % (neg, some, lhs, op, rhs)).strip()
        progs = {"inline": "rule r {\n%s\n}\n" % clause(q)}
        skip_empty_exception = op in ("empty", "!empty")     # the documented exception: `%v empty` tests the result set
        if not skip_empty_exception:
            progs["file-let"] = "let v = %s\nrule r {\n%s\n}\n" % (q, clause("%v"))
            progs["rule-let"] = "rule r {\nlet v = %s\n%s\n}\n" % (q, clause("%v"))
            progs["twice"] = "let v = %s\nrule r {\n%s\n%s\n}\n" % (q, clause("%v"), clause("%v"))
            progs["shadow"] = "let v = zz.zz\nrule r {\nlet v = %s\n%s\n}\n" % (q, clause("%v"))
            progs["when-let"] = "rule r {\nwhen this exists {\nlet v = %s\n%s\n}\n}\n" % (q, clause("%v"))
            progs["param"] = "rule f(p) {\n%s\n}\nrule r {\nf(%s)\n}\n" % (clause("%p"), q)
        if not skip_empty_exception:
            # a `when` condition lies OUTSIDE the block it guards: a `let` of the same name inside the block does not reach it
            progs["cond-inline"] = "rule r {\nwhen %s {\nthis exists\n}\n}\n" % clause(q)
            progs["cond-file-let"] = "let v = %s\nrule r {\nwhen %s {\nlet v = zz.zz\nthis exists\n}\n}\n" % (q, clause("%v"))
            progs["cond-rule-let"] = "rule r {\nlet v = %s\nwhen %s {\nlet v = zz.zz\nthis exists\n}\n}\n" % (q, clause("%v"))
            progs["cond-nested"] = "rule r {\nwhen this exists {\nlet v = %s\nwhen %s {\nlet v = zz.zz\nthis exists\n}\n}\n}\n" % (q, clause("%v"))
            # an index right after the variable indexes each value the variable holds, like the query in place
            for n_ in (0, 1):
                progs["index%d-inline" % n_] = "rule r {\n%s\n}\n" % clause("%s[%d]" % (q, n_))
                progs["index%d-let" % n_] = "let v = %s\nrule r {\n%s\n}\n" % (q, clause("%%v[%d]" % n_))
                progs["index%d-rule-let" % n_] = "rule r {\nlet v = %s\n%s\n}\n" % (q, clause("%%v[%d]" % n_))
                progs["index%d-param" % n_] = "rule f(p) {\n%s\n}\nrule r {\nf(%s)\n}\n" % (clause("%%p[%d]" % n_), q)
        if skip_empty_exception and not q.endswith("]"):
            # the documented exception is the BARE variable only. The `[*]` after a variable head is the one the parser
            # inserts anyway (`%v.a` is `%v[*].a`) and retrieval skips it, so `%v[*] empty` is the clause `q empty` in place
            progs["star-inline"] = "rule r {\n%s\n}\n" % clause(q)
            progs["star-let"] = "let v = %s\nrule r {\n%s\n}\n" % (q, clause("%v[*]"))
            progs["star-rule-let"] = "rule r {\nlet v = %s\n%s\n}\n" % (q, clause("%v[*]"))
        progs["unused"] = "let u = zz[ q == 1 ].w\nlet u2 = parse_int(\"x\")\nrule r {\nlet u3 = join(zz, \",\")\n%s\n}\n" % clause(q)
        # prefix abstraction: split the query at a '.' boundary outside brackets
        depth, cut = 0, None
        for k, ch_ in enumerate(q):
            if ch_ == "[":
                depth += 1
            elif ch_ == "]":
                depth -= 1
            elif ch_ == "." and depth == 0 and k > 0 and q[k - 1] not in "\"'" and cut is None and g.p(0.6):
                cut = k
        if cut and not skip_empty_exception:
            head, tail = q[:cut], q[cut:]
            if not any(c in head for c in "\"'"):
                progs["prefix-let"] = "let v = %s\nrule r {\n%s\n}\n" % (head, clause("%v" + tail))
        if rhs and not rhs.startswith("r[") and not rhs.startswith("r("):
            progs["literal-let"] = "let lit = %s\nrule r {\n%s%s%s %s %%lit\n}\n" % (rhs, neg, some, q, op)
            progs["literal-rule-let"] = "rule r {\nlet lit = %s\n%s%s%s %s %%lit\n}\n" % (rhs, neg, some, q, op)
        # every reference to a variable sees the same value: the same rule with and without an EARLIER reference
        # (a `some` variable over a selection that mixes present and missing values, at file and at rule scope)
        mxq = g.ch(["mx[*].t", "mx[*].u.w", "mx[ t exists ].t", "mx[*]"])
        body = "%%sv exists\n%%sv %s\n" % g.ch(["<= 100", "!empty", "is_int", "in [1, 2, 3]"])
        progs["some-ref1"] = "let sv = some %s\nrule r {\n%s}\n" % (mxq, body)
        progs["some-ref2"] = "let sv = some %s\nrule q0 {\n%%sv exists\n}\nrule r {\n%s}\n" % (mxq, body)
        progs["some-ref3"] = "rule r {\nlet sv = some %s\n%%sv exists\n%%sv exists\n%s}\n" % (mxq, body)
        progs["all-ref1"] = "let sv = %s\nrule r {\n%s}\n" % (mxq, body)
        progs["all-ref2"] = "let sv = %s\nrule q0 {\nsome %%sv exists\n}\nrule r {\n%s}\n" % (mxq, body)
        # block scope: evaluate inside a block over a wrapper value
        data = json.dumps({"ctx": d, **d, "mx": [{"t": 1, "u": {"w": 2}}, {}, {"t": 2, "u": {}}]})
        if not skip_empty_exception:
            progs["block-inline"] = "rule r {\nctx {\n%s\n}\n}\n" % clause(q)
            progs["block-let"] = "rule r {\nctx {\nlet v = %s\n%s\n}\n}\n" % (q, clause("%v"))
        # the block cases run on a document whose ROOT does not have the keys of `ctx`: a block-level variable is evaluated
        # against the block's current value, not against the enclosing scope's
        data_block = json.dumps({"ctx": d, "decoy": {"ctx": 1}})
        idx = {}
        for k, t in progs.items():
            idx[k] = len(cases)
            cases.append({"rules": t, "data": data_block if k.startswith("block-") else data})
        groups.append((idx, q, op, rhs))
    results = vlib.correspond(cases, ctx.hp, ctx.mp)
    absorb(res, results, "C15 abstraction sites")
    res.nontrivial = set()
    for idx, q, op, rhs in groups:
        def st(k):
            r = results[idx[k]]["impl"]
            if r.get("kind") == "ok":
                return dict((a, b) for a, b in r["rules"]).get("r")
            return "ERR:" + str(r.get("err", r.get("kind")))
        base = st("inline")
        if base is None or str(base).startswith("ERR"):
            res.stats["c15-base-error"] += 1
            continue
        res.nontrivial.add((q, op, rhs))
        for a_, b_ in (("some-ref1", "some-ref2"), ("some-ref1", "some-ref3"), ("all-ref1", "all-ref2")):
            res.stats["c15-site:" + b_] += 1
            if st(a_) != st(b_):
                res.judge_failures.append({"what": "an earlier reference to a variable changes what a later reference sees: rule r is %s alone and %s after another reference" % (st(a_), st(b_)),
                                           "class": "c15-same-value", "rules": results[idx[b_]]["case"]["rules"],
                                           "base_rules": results[idx[a_]]["case"]["rules"], "data": results[idx[b_]]["case"]["data"]})
        for k in ("star-let", "star-rule-let"):
            if k in idx and not str(st("star-inline")).startswith("ERR"):
                res.stats["c15-site:" + k] += 1
                if st(k) != st("star-inline"):
                    res.judge_failures.append({"what": "`%%v[*] %s` is %s but `%s %s` in place is %s (only the bare variable tests the result set)" % (op, st(k), q, op, st("star-inline")),
                                               "class": "c15-" + k, "rules": results[idx[k]]["case"]["rules"],
                                               "base_rules": results[idx["star-inline"]]["case"]["rules"], "data": results[idx[k]]["case"]["data"]})
        for ref_, ks_ in (("cond-inline", ("cond-file-let", "cond-rule-let", "cond-nested")),
                          ("index0-inline", ("index0-let", "index0-rule-let", "index0-param")),
                          ("index1-inline", ("index1-let", "index1-rule-let", "index1-param"))):
            if ref_ not in idx or str(st(ref_)).startswith("ERR"):
                continue
            for k in ks_:
                res.stats["c15-site:" + k] += 1
                res.stats["c15-site:%s:%s" % (ref_, st(ref_))] += 1
                if st(k) != st(ref_):
                    res.judge_failures.append({"what": "abstraction `%s` changes the verdict: in place %s, with the variable %s" % (k, st(ref_), st(k)),
                                               "class": "c15-" + k, "rules": results[idx[k]]["case"]["rules"],
                                               "base_rules": results[idx[ref_]]["case"]["rules"], "data": results[idx[k]]["case"]["data"]})
        for k in idx:
            if k in ("inline", "block-inline", "block-let") or k.startswith(("some-ref", "all-ref", "star-", "cond-", "index")):
                continue
            res.stats["c15-site:" + k] += 1
            if st(k) != base:
                res.judge_failures.append({"what": "abstraction `%s` changes the verdict of `%s %s %s`: in place %s, abstracted %s" % (k, q, op, rhs, base, st(k)),
                                           "class": "c15-" + k, "rules": results[idx[k]]["case"]["rules"],
                                           "base_rules": results[idx["inline"]]["case"]["rules"], "data": results[idx[k]]["case"]["data"]})
        if "block-let" in idx and st("block-inline") != st("block-let") and not str(st("block-inline")).startswith("ERR"):
            res.judge_failures.append({"what": "block-level abstraction changes the verdict: %s vs %s" % (st("block-inline"), st("block-let")),
                                       "class": "c15-block-let", "rules": results[idx["block-let"]]["case"]["rules"],
                                       "base_rules": results[idx["block-inline"]]["case"]["rules"], "data": results[idx["block-let"]]["case"]["data"]})
        res.add_sample({"query": q, "op": op, "rhs": rhs, "in_place": base, "sites": sorted(idx)})
    return res


register("C15", ["Guard.Properties.C15"], run_C15)


# =============================================================================== C06

RULE_CLASSES = {
    "chk": "rule chk { x == 1 }\n",
    "chk2": "rule chk2 {\n x == 1 or x == 3\n y exists\n}\n",
    "skp": "rule skp when zz exists { x == 1 }\n",
    "ok": "rule ok { x exists }\n",
    # status depends on the document: SKIP on the compliant one, FAIL / PASS on the other
    "cond": "rule cond when x == 2 { y == 3 }\n",
    "condok": "rule condok when x == 2 { y == 2 }\n",
    "broken": "rule b { x == }\n",
    "empty": "# nothing here\n",
    "unreadable": b"\xff\xfe rule z { x == 1 }\n",
    "evalerr": "rule e { x empty }\n",
}
DATA_CLASSES = {
    "good": '{"x": 1, "y": 2}',
    "bad": '{"x": 2, "y": 2}',
    "goodyaml": "x: 1\ny: [1, 2]\n",
    "malformed": '{"x": [1, ',
    "emptydoc": "   \n",
}


def c06_scenarios(rng, n, exhaustive_pairs=True):
    out = []
    rcls = list(RULE_CLASSES)
    dcls = list(DATA_CLASSES)
    modes = ["plain", "json", "yaml", "sarif", "junit", "payload-plain", "payload-json", "stdin"]
    if exhaustive_pairs:
        for r in rcls:
            for d in dcls:
                for m in modes:
                    out.append(([r], [d], m))
        # every rules class x every ORDERED pair of documents, and every ordered pair of rules classes x one document:
        # the folds over files (a later result must not erase an earlier one) in every mode
        for r in rcls:
            for d1 in dcls:
                for d2 in dcls:
                    for m in modes:
                        if m != "stdin":
                            out.append(([r], [d1, d2], m + ("+dir" if m in ("plain", "json", "junit") and (len(out) % 3 == 0) else "")))
        for r1 in rcls:
            for r2 in rcls:
                for d in ("good", "bad"):
                    for m in modes:
                        out.append(([r1, r2], [d], m))
    while len(out) < n:
        rs = [rng.choice(rcls) for _ in range(rng.choice([1, 2, 2, 3]))]
        ds = [rng.choice(dcls[:3] if rng.random() < 0.85 else dcls) for _ in range(rng.choice([1, 2, 3]))]
        m = rng.choice(modes)
        if m in ("plain", "json", "yaml", "sarif", "junit") and rng.random() < 0.4:
            m += "+dir"          # the same files given as a rules directory and a data directory (-a: name order)
        out.append((rs, ds, m))
    return out


def c06_job(rs, ds, mode):
    files, argv, stdin = {}, ["validate"], b""
    as_dirs = mode.endswith("+dir")
    mode = mode.replace("+dir", "")
    # files named on the command line are read whatever they are called (`policy.rules`, `checks`, `tmpl.txt`); only a
    # directory scan goes by extension. Every other explicit scenario uses such names.
    odd = (not as_dirs) and (len("".join(rs)) + len("".join(ds)) + len(mode)) % 2 == 1
    rext = (lambda i: [".rules", "", ".ruleset", ".txt"][i % 4]) if odd else (lambda i: ".guard")
    rnames = [("rd/" if as_dirs else "") + "r%d%s" % (i, rext(i)) for i in range(len(rs))]
    # (data files are selected by extension even when named explicitly - documented - so they keep supported ones)
    dnames = [("dd/" if as_dirs else "") + "d%d.%s" % (i, ("yaml" if ds[i] == "goodyaml" else "json") if not odd else ["yml" if ds[i] == "goodyaml" else "jsn", "template"][i % 2]) for i in range(len(ds))]
    if mode.startswith("payload"):
        if any(r == "unreadable" for r in rs):
            return None
        payload = {"rules": [RULE_CLASSES[r] for r in rs], "data": [DATA_CLASSES[d] for d in ds]}
        argv += ["--payload"]
        if mode == "payload-json":
            argv += ["--structured", "-o", "json", "-S", "none"]
        return {"argv": argv, "files": {}, "stdin": json.dumps(payload)}
    for n_, r in zip(rnames, rs):
        files[n_] = RULE_CLASSES[r]
        if not as_dirs:
            argv += ["-r", "{DIR}/" + n_]
    if as_dirs:
        argv += ["-r", "{DIR}/rd", "-d", "{DIR}/dd", "-a"]
        for n_, d in zip(dnames, ds):
            files[n_] = DATA_CLASSES[d]
    elif mode == "stdin":
        if len(ds) != 1:
            return None
        stdin = DATA_CLASSES[ds[0]]
    else:
        for n_, d in zip(dnames, ds):
            files[n_] = DATA_CLASSES[d]
            argv += ["-d", "{DIR}/" + n_]
    if mode in ("json", "yaml", "sarif", "junit"):
        argv += ["--structured", "-o", mode, "-S", "none"]
    return {"argv": argv, "files": files, "stdin": stdin}


def run_C06(ctx):
    res = Result("every (rules-file class) x (data class) x mode pair exhaustively, plus random sets of 1..3 rules files "
                 "(valid / failing / skipping / syntactically broken / empty / unreadable / erroring) x 1..3 documents "
                 "(compliant / non-compliant / YAML / malformed / empty) x {plain, structured json/yaml/sarif/junit, payload "
                 "plain/structured, stdin}, run with the REAL binary for the process exit status; `cfn-guard test` with "
                 "matching / mismatching / unparsable test files and test files whose expectation is not a status word (judged, not "
                 "modelled), single file and --dir; non-trivial = distinct scenario")
    rng = random.Random(ctx.seed)
    scen = c06_scenarios(rng, 12000 if ctx.thorough() else 4600)
    jobs, keep = [], []
    for rs, ds, m in scen:
        j = c06_job(rs, ds, m)
        if j is not None:
            jobs.append(j)
            keep.append((rs, ds, m))
    outs = vlib.run_cli_many(jobs)
    keep = [(rs, ds, m.replace("+dir", "")) if not m.endswith("+dir") else (rs, ds, m) for rs, ds, m in keep]
    # per (rule class, data class) status from the implementation itself (library entry point)
    pairs = sorted({(r, d) for rs, ds, _ in keep for r in rs for d in ds if r not in ("unreadable",)})
    presp = ctx.hp.map([{"id": i, "op": "case", "rules": RULE_CLASSES[r], "data": DATA_CLASSES[d]} for i, (r, d) in enumerate(pairs)])
    pst = {}
    for (r, d), resp in zip(pairs, presp):
        o = vlib.obs_of_impl(resp)
        pst[(r, d)] = o["status"] if o["kind"] == "ok" else ("ERR" if o["kind"] == "err" else o["kind"])
    mreqs, midx = [], []
    for i, (rs, ds, m) in enumerate(keep):
        bad_data = any(d in ("malformed", "emptydoc") for d in ds)
        files = []
        for r in rs:
            if r == "unreadable":
                files.append({"k": "unreadable"})
            elif r == "broken":
                files.append({"k": "parseError"})
            elif r == "empty":
                files.append({"k": "empty"})
            else:
                files.append({"k": "evaluated", "cols": [None if pst[(r, d)] == "ERR" else pst[(r, d)] for d in ds]})
        mb = m.replace("+dir", "")
        mode = "plain" if mb in ("plain", "payload-plain", "stdin") else ("junit" if mb == "junit" else "structured")
        if not bad_data:
            mreqs.append({"id": i, "op": "exit", "cmd": "validate", "mode": mode, "files": files})
            midx.append(i)
    mresp = ctx.mp.map(mreqs)
    pred = {i: m.get("exit") for i, m in zip(midx, mresp)}
    for i, ((rs, ds, m), o) in enumerate(zip(keep, outs)):
        res.evaluations += 1
        res.stats["validate-mode:" + m] += 1
        res.stats["validate-exit:%s" % o["code"]] += 1
        res.nontrivial.add((tuple(rs), tuple(ds), m))
        code = o["code"]
        bad_data = any(d in ("malformed", "emptydoc") for d in ds)
        parsed = all(r not in ("broken", "unreadable") for r in rs)
        sts = [pst.get((r, d)) for r in rs for d in ds if r not in ("broken", "unreadable", "empty")]
        any_fail = "FAIL" in sts
        any_err = "ERR" in sts
        what = None
        if code not in (0, 5, 19, 255):
            what = "undocumented exit status %s" % code
        elif bad_data or any_err:
            # malformed / empty data and evaluation errors: a non-zero error exit, never 0 and never 19
            # (an evaluation error only surfaces if that pair is reached before another abort)
            if bad_data and code in (0, 19):
                what = "malformed or empty data gave exit %s" % code
            if any_err and not bad_data and code in (0,) and parsed:
                what = "an evaluation error gave exit 0"
        else:
            if (code == 0) != (parsed and not any_fail):
                what = "exit 0 must mean: every rules file parsed and no pair FAILed (parsed=%s any_fail=%s, exit=%s)" % (parsed, any_fail, code)
            elif parsed and any_fail and code != 19:
                what = "all rules files parse and a pair FAILs: expected 19, got %s" % code
            elif (not parsed) and (not any_fail) and code != 5 and not (m.replace("+dir", "") in ("json", "yaml", "sarif", "junit") and "unreadable" in rs and code == 255):
                what = "a rules file does not parse and nothing FAILs: expected 5, got %s" % code
        if what:
            res.judge_failures.append({"what": "validate exit code: " + what, "class": "c06-validate",
                                       "rules": [r for r in rs], "data": [d for d in ds], "mode": m,
                                       "argv": jobs[i]["argv"], "stderr": o["stderr"][:300]})
        if i in pred and pred[i] != code:
            res.disagreements.append({"what": "exit-code model %s vs binary %s for rules=%s data=%s mode=%s" % (pred[i], code, rs, ds, m),
                                      "argv": jobs[i]["argv"], "stderr": o["stderr"][:300]})
        if i < 3:
            res.add_sample({"rules": rs, "data": ds, "mode": m, "exit": code})
    run_C06_test(ctx, res, rng)
    return res


TEST_RULES = {"ok": "rule chk { x == 1 }\nrule other { y exists }\n", "bad": "rule chk { x == \n", "empty": "# none\n",
              # one rule name defined twice under different guards: the name evaluates to a LIST of statuses
              "dup": "rule chk when x == 1 { y == 2 }\nrule chk when x == 2 { y exists }\nrule other { y exists }\n"}


def test_file_text(rng, kind, rk="ok"):
    """returns (text, [mismatch per case]) or (text, None) for an unparsable file"""
    if kind == "unparsable":
        return "- name: [unclosed\n  input: {", None
    if kind == "badexp":
        # an expectation that is not one of PASS / FAIL / SKIP: the file is not a valid test file (never exit 0)
        return json.dumps([{"name": "c0", "input": {"x": 1, "y": 1}, "expectations": {"rules": {"chk": rng.choice(["pass", "PASSED", "Ok", "fail", ""])}}}]), None
    if rk == "dup":
        # statuses of `chk` per input: x=1 -> [FAIL, SKIP], x=2 -> [SKIP, PASS], x=3 -> [SKIP, SKIP]; an expectation is met
        # when SOME evaluation of the name has the expected status, SKIP only when ALL of them are SKIP
        ev = {1: ["FAIL", "SKIP"], 2: ["SKIP", "PASS"], 3: ["SKIP", "SKIP"]}
        specs, mism = [], []
        for k in range(rng.choice([1, 2, 3])):
            x = rng.choice([1, 2, 3])
            want_mm = kind == "mismatch" and (k == 0 or rng.random() < 0.5)
            opts = [e for e in ("PASS", "FAIL", "SKIP")
                    if ((all(v == "SKIP" for v in ev[x]) if e == "SKIP" else e in ev[x]) != want_mm)]
            if not opts:
                opts = ["PASS", "FAIL", "SKIP"]
            e = rng.choice(opts)
            met = all(v == "SKIP" for v in ev[x]) if e == "SKIP" else e in ev[x]
            specs.append({"name": "case%d" % k, "input": {"x": x, "y": 1}, "expectations": {"rules": {"chk": e}}})
            mism.append(not met)
        return json.dumps(specs), mism
    specs, mism = [], []
    for k in range(rng.choice([1, 2, 3])):
        x = rng.choice([1, 2])
        actual = "PASS" if x == 1 else "FAIL"
        mm = rng.random() < (0.5 if kind == "mismatch" else 0.0)
        exp = actual if not mm else ("FAIL" if actual == "PASS" else "PASS")
        exps = {"chk": exp}
        if rng.random() < 0.5:
            exps["other"] = "PASS"
        specs.append({"name": "case%d" % k, "input": {"x": x, "y": 1}, "expectations": {"rules": exps}})
        mism.append(mm)
    if kind == "mismatch" and not any(mism):
        specs[0]["expectations"]["rules"]["chk"] = "FAIL" if specs[0]["input"]["x"] == 1 else "PASS"
        mism[0] = True
    return json.dumps(specs), mism


def run_C06_test(ctx, res, rng):
    n = 1500 if ctx.thorough() else 250
    jobs, meta = [], []
    # every ORDERED pair of file classes, in every format and both layouts (a later file must not erase an earlier result)
    forced = []
    fcls = [("ok", "match"), ("ok", "mismatch"), ("ok", "unparsable"), ("bad", "match"), ("empty", "match"), ("dup", "match"), ("dup", "mismatch")]
    for fmt in ("plain", "json", "yaml", "junit"):
        for a in fcls:
            for b in fcls:
                forced.append(("dir", fmt, [a[0], b[0]], [[a[1]], [b[1]]]))
        for rk in ("ok", "bad", "empty", "dup"):
            for k1 in ("match", "mismatch", "unparsable", "badexp"):
                for k2 in ("match", "mismatch", "unparsable", "badexp"):
                    forced.append(("single", fmt, [rk], [[k1, k2]]))
    for i in range(n + len(forced)):
        fz = forced[i] if i < len(forced) else None
        layout = fz[0] if fz else rng.choice(["single", "single", "dir"])
        fmt = fz[1] if fz else rng.choice(["plain", "json", "yaml", "junit"])
        oargs = [] if fmt == "plain" else ["-o", fmt]
        if layout == "single":
            rk = fz[2][0] if fz else rng.choice(["ok", "ok", "ok", "bad", "empty", "dup"])
            kinds = fz[3][0] if fz else [rng.choice(["match", "match", "mismatch", "unparsable"]) for _ in range(rng.choice([1, 1, 2]))]
            files = {"r.guard": TEST_RULES[rk]}
            tfs = []
            for k, kind in enumerate(kinds):
                txt, mism = test_file_text(rng, kind, rk)
                files["t/t%d.yaml" % k] = txt
                tfs.append({"k": "unparsable"} if mism is None else {"k": "specs", "mismatch": mism})
            model = {"cmd": "test-single-plain" if fmt == "plain" else "test-single-structured",
                     "rules": {"k": "ok" if rk == "dup" else rk, "files": tfs}}
            jobs.append({"argv": ["test", "-r", "{DIR}/r.guard", "-t", "{DIR}/t", "-a"] + oargs, "files": files})
            meta.append((layout, fmt, [rk], [kinds], model))
        else:
            rks, allk, files, mrules = [], [], {}, []
            for j in range(len(fz[2]) if fz else rng.choice([1, 2, 3])):
                rk = fz[2][j] if fz else rng.choice(["ok", "ok", "bad", "empty", "dup"])
                kinds = fz[3][j] if fz else [rng.choice(["match", "match", "mismatch", "unparsable"]) for _ in range(rng.choice([1, 2]))]
                # every third scenario: each rules file in a directory of its own (several directories are walked)
                sub = "p%d/" % j if i % 3 == 1 else ""
                files[sub + "f%d.guard" % j] = TEST_RULES[rk]
                tfs = []
                for k, kind in enumerate(kinds):
                    txt, mism = test_file_text(rng, kind, rk)
                    files[sub + "tests/f%d_%d.yaml" % (j, k)] = txt
                    tfs.append({"k": "unparsable"} if mism is None else {"k": "specs", "mismatch": mism})
                rks.append(rk)
                allk.append(kinds)
                mrules.append({"k": "ok" if rk == "dup" else rk, "files": tfs})
            model = {"cmd": "test-dir-plain" if fmt == "plain" else "test-dir-structured", "rules": mrules}
            # every other scenario names the directory relatively (`--dir .`, the job runs inside it)
            jobs.append({"argv": ["test", "-d", "." if i % 2 == 1 else "{DIR}"] + oargs, "files": files})
            meta.append((layout, fmt, rks, allk, model))
    outs = vlib.run_cli_many(jobs)
    mresp = ctx.mp.map([dict(m[4], id=i, op="exit") for i, m in enumerate(meta)])
    for i, ((layout, fmt, rks, allk, model), o, mr) in enumerate(zip(meta, outs, mresp)):
        res.evaluations += 1
        code = o["code"]
        res.stats["test-exit:%s" % code] += 1
        res.stats["test-layout:%s/%s" % (layout, fmt)] += 1
        res.nontrivial.add(("test", layout, fmt, tuple(rks), json.dumps(allk)))
        parse_ok = all(r != "bad" for r in rks) and all(k not in ("unparsable", "badexp") for r, ks in zip(rks, allk) for k in ks if r in ("ok", "dup"))
        mismatch = any(k == "mismatch" for r, ks in zip(rks, allk) for k in ks if r in ("ok", "dup"))
        what = None
        if (code == 0) != (parse_ok and not mismatch):
            what = "exit 0 must mean all files parse and every expectation matches (parse_ok=%s mismatch=%s exit=%s)" % (parse_ok, mismatch, code)
        elif parse_ok and mismatch and code != 7:
            what = "all files parse and an expectation mismatches: expected 7, got %s" % code
        if what:
            res.judge_failures.append({"what": "test exit code: " + what, "class": "c06-test", "layout": layout, "format": fmt,
                                       "rules": rks, "tests": allk, "argv": jobs[i]["argv"], "files": {k: (v if isinstance(v, str) else "<bytes>") for k, v in jobs[i]["files"].items()},
                                       "stdout": o["stdout"][:400], "stderr": o["stderr"][:300]})
        if any(k == "badexp" for ks in allk for k in ks):
            res.stats["c06-test-badexp-not-modelled"] += 1      # the model has no class for an invalid expectation string (255 plain / 1 structured)
        elif mr.get("exit") != code:
            res.disagreements.append({"what": "test exit-code model %s vs binary %s (%s %s rules=%s tests=%s)" % (mr.get("exit"), code, layout, fmt, rks, allk),
                                      "argv": jobs[i]["argv"], "stdout": o["stdout"][:300]})


register("C06", ["Guard.Properties.C06"], run_C06, needs_cli=True)


# =============================================================================== C09

def norm_msg(m):
    return None if m in (None, "") else m


def canon_impl_cr(c):
    (kind, b), = c.items()
    if kind == "Rule":
        return {"Rule": {"name": b["name"], "msg": norm_msg(b["messages"].get("custom_message")),
                         "checks": [canon_impl_cr(x) for x in b["checks"]]}}
    if kind == "Block":
        u = b.get("unresolved")
        return {"Block": {"unres": u["traversed_to"]["path"] if u else None}}
    if kind == "Disjunctions":
        return {"Disjunctions": [canon_impl_cr(x) for x in b["checks"]]}
    (uk, ub), = b.items()          # Clause: Unary | Binary
    (ck, cb), = ub["check"].items() if isinstance(ub["check"], dict) else ((ub["check"], None),)
    msg = norm_msg(ub["messages"].get("custom_message"))
    if uk == "Unary":
        if ck == "Resolved":
            return {"Clause": {"k": "Unary", "c": "Resolved", "from": cb["value"]["path"], "to": [], "msg": msg}}
        if ck == "UnResolved":
            return {"Clause": {"k": "Unary", "c": "UnResolved", "from": cb["value"]["traversed_to"]["path"], "to": [], "msg": msg}}
        return {"Clause": {"k": "Unary", "c": "Context", "from": None, "to": [], "msg": msg, "ctx": cb}}
    if ck == "Resolved":
        return {"Clause": {"k": "Binary", "c": "Resolved", "from": cb["from"]["path"], "to": [cb["to"]["path"]], "msg": msg}}
    if ck == "UnResolved":
        return {"Clause": {"k": "Binary", "c": "UnResolved", "from": cb["value"]["traversed_to"]["path"], "to": [], "msg": msg}}
    return {"Clause": {"k": "Binary", "c": "InResolved", "from": cb["from"]["path"], "to": [t["path"] for t in cb["to"]], "msg": msg}}


def canon_model_cr(c):
    (kind, b), = c.items()
    if kind == "Rule":
        return {"Rule": {"name": b["name"], "msg": norm_msg(b["msg"]), "checks": [canon_model_cr(x) for x in b["checks"]]}}
    if kind == "Block":
        return {"Block": {"unres": b["unres"]}}
    if kind == "Disjunctions":
        return {"Disjunctions": [canon_model_cr(x) for x in b]}
    d = dict(b)
    d["msg"] = norm_msg(d.get("msg"))
    if d["c"] == "Context":
        d["from"] = None
    return {"Clause": d}


def strip_ctx(c):
    if "Clause" in c:
        c = {"Clause": {k: v for k, v in c["Clause"].items() if k != "ctx"}}
    elif "Rule" in c:
        c = {"Rule": dict(c["Rule"], checks=[strip_ctx(x) for x in c["Rule"]["checks"]])}
    elif "Disjunctions" in c:
        c = {"Disjunctions": [strip_ctx(x) for x in c["Disjunctions"]]}
    return c


def base_rule_name(n):
    """the implicit rule is called `<rules file name>/default`: drop the file part"""
    if n.endswith("/default"):
        return "default"
    return n.split(".guard/")[-1] if ".guard/" in n else n


def norm_names(c):
    if "Rule" in c:
        c = {"Rule": dict(c["Rule"], name=base_rule_name(c["Rule"]["name"]), checks=[norm_names(x) for x in c["Rule"]["checks"]])}
    elif "Disjunctions" in c:
        c = {"Disjunctions": [norm_names(x) for x in c["Disjunctions"]]}
    return c


def canon_impl_report(r):
    return {"status": r["status"], "compliant": sorted(set(map(base_rule_name, r["compliant"]))),
            "not_applicable": sorted(set(map(base_rule_name, r["not_applicable"]))),
            "not_compliant": [norm_names(strip_ctx(canon_impl_cr(c))) for c in r["not_compliant"]]}


def canon_model_report(m):
    return {"status": m["status"], "compliant": sorted(set(map(base_rule_name, m["compliant"]))),
            "not_applicable": sorted(set(map(base_rule_name, m["not_applicable"]))),
            "not_compliant": [norm_names(canon_model_cr(c)) for c in m["not_compliant"]]}


def cr_leaf_msgs(c, acc):
    if "Clause" in c:
        acc.append(c["Clause"]["msg"])
    elif "Rule" in c:
        for x in c["Rule"]["checks"]:
            cr_leaf_msgs(x, acc)
    elif "Disjunctions" in c:
        for x in c["Disjunctions"]:
            cr_leaf_msgs(x, acc)


def failed_msgs(t, acc):
    if t["k"] == "ClauseValueCheck" and t["v"] != "Success":
        acc.append(norm_msg(t.get("msg")))
    for c in t["c"]:
        failed_msgs(c, acc)


def distinct_names_program(g, doc, nfiles):
    """1..3 rules files with globally distinct rule names"""
    files = []
    for k in range(nfiles):
        txt = g.rules_file(doc, depth=2, cfn=False)
        import re as _re
        txt = _re.sub(r"\br(\d)\b", lambda m: "f%dr%s" % (k, m.group(1)), txt)
        files.append(txt)
    return files


def run_C09(ctx):
    res = Result("random rule files with distinct rule names (1..3 rules files per run) x documents: the structured report of "
                 "the implementation (library `run_checks` and `validate --structured -o json` of the real binary) is compared "
                 "with the report the Lean model derives from the implementation's own record tree(s), and judged against the "
                 "partition / status / attribution statements; non-trivial = evaluated run, distinct by (rules, data)")
    n = 6000 if ctx.thorough() else 500
    rng = random.Random(ctx.seed)
    runs = []
    for i in range(n):
        g = gen.G(ctx.seed * 9000011 + i)
        d = g.doc()
        progs = distinct_names_program(g, d, rng.choice([1, 1, 2, 3]))
        if i % 2 == 0:
            # rules that FAIL (or PASS / SKIP) without any check of their own to show: negated references to a
            # rule / parameterised rule that passes, references to rules that fail or are skipped
            k = rng.randrange(len(progs))
            progs[k] += ("rule zz%d_pass { this is_struct }\nrule zz%d_fail { this is_string <<zz custom>> }\n"
                         "rule zz%d_skip when this is_string { this exists }\n"
                         "rule zz%d_p(x) { %%x is_struct }\n"
                         "rule zz%d_neg_named {\nnot zz%d_pass\n}\nrule zz%d_neg_call {\nnot zz%d_p(this)\n}\n"
                         "rule zz%d_ref_fail {\nzz%d_fail\n}\nrule zz%d_neg_fail {\nnot zz%d_fail\nnot zz%d_skip\n}\n"
                         "rule zz%d_ref_skip {\nzz%d_skip\n}\nrule zz%d_call {\nzz%d_p(this) <<call msg>>\n}\n"
                         "rule zz%d_q(x) { %%x is_string <<inner msg>> }\n"
                         "rule zz%d_call_fail {\nzz%d_q(this) <<failing call msg>>\n}\n") % ((k,) * 20)
        if i % 4 == 1:
            # clauses with a custom message over SEVERAL values (every failing value must carry the clause's message)
            k = rng.randrange(len(progs))
            d["zmsg"] = [{"n": "a", "v": 1}, {"v": 2}, {"n": 3}, {"w": 4}]
            progs[k] += ("rule zm%d_unary {\nzmsg[*].n exists <<every entry needs n>>\nzmsg[*].n is_string <<n is text>>\n}\n"
                         "rule zm%d_binary {\nzmsg[*].v == 1 <<v must be one>>\nsome zmsg[*].w > 9 <<no big w>>\n}\n") % (k, k)
        runs.append((progs, json.dumps(d)))
    # a report far larger than any I/O buffer (80 failing rules with long messages): the library call must return ALL of it
    big = "".join("rule big%d { zbig == %d <<message number %d, padded so that the report grows well beyond eight kilobytes of JSON text>> }\n" % (k_, k_ + 100, k_) for k_ in range(80))
    runs.append(([big], json.dumps({"zbig": 1})))
    # the record trees themselves (checks, values, messages) against the model: the report is derived from them
    ccases = [{"rules": txt, "data": data} for files, data in runs[: (2000 if ctx.thorough() else 250)] for txt in files]
    absorb(res, vlib.correspond(ccases, ctx.hp, ctx.mp, detail=True), "C09 record trees")
    # per rules file: tree (verbose) and report (library)
    reqs, owner = [], []
    for ri, (files, data) in enumerate(runs):
        for fi, txt in enumerate(files):
            reqs.append({"id": len(reqs), "op": "case", "rules": txt, "data": data, "report": True})
            owner.append((ri, fi))
    resp = ctx.hp.map(reqs)
    per = {}
    for (ri, fi), r in zip(owner, resp):
        per[(ri, fi)] = r
    # model reports from the implementation's trees
    mreqs, midx = [], []
    for ri, (files, data) in enumerate(runs):
        obs = [vlib.obs_of_impl(per[(ri, fi)], detail=True) for fi in range(len(files))]
        if all(o["kind"] == "ok" for o in obs):
            mreqs.append({"id": ri, "op": "report", "trees": [o["tree"] for o in obs]})
            midx.append(ri)
            for fi, o in enumerate(obs):
                mreqs.append({"id": "%d/%d" % (ri, fi), "op": "report", "trees": [o["tree"]]})
                midx.append((ri, fi))
    mresp = dict(zip(midx, ctx.mp.map(mreqs)))
    # real binary, structured json, all rules files of the run at once
    jobs, jidx = [], []
    for ri, (files, data) in enumerate(runs):
        if ri in mresp:
            # every other run: the rules files share one base name in different directories (team-a/policy.guard ..)
            rname = (lambda k: "r%d.guard" % k) if ri % 2 == 0 else (lambda k: "team%d/policy.guard" % k)
            fl = {rname(k): t for k, t in enumerate(files)}
            fl["d.json"] = data
            argv = ["validate", "--structured", "-o", "json", "-S", "none", "-d", "{DIR}/d.json"]
            for k in range(len(files)):
                argv += ["-r", "{DIR}/" + rname(k)]
            jobs.append({"argv": argv, "files": fl})
            jidx.append(ri)
    outs = dict(zip(jidx, vlib.run_cli_many(jobs)))
    for ri, (files, data) in enumerate(runs):
        res.evaluations += 1
        if ri not in mresp:
            res.stats["c09-run-not-evaluated"] += 1
            continue
        res.nontrivial.add(ri)
        res.stats["c09-files:%d" % len(files)] += 1
        # (1) library report per rules file == model report from that tree
        for fi in range(len(files)):
            rep = per[(ri, fi)].get("report", {})
            if "ok_text" in rep:
                res.judge_failures.append({"what": "run_checks returned a report that is not a JSON document (%d characters, starts with %r)" % (
                                               len(rep["ok_text"]), rep["ok_text"][:60]),
                                           "class": "c09-report-not-json", "rules": files[fi], "data": data})
                continue
            if "ok" not in rep:
                continue
            impl_rep = canon_impl_report(rep["ok"])
            model_rep = canon_model_report(mresp[(ri, fi)])
            if impl_rep != model_rep:
                res.disagreements.append({"what": "structured report: implementation and model (from the same tree) differ",
                                          "rules": files[fi], "data": data, "impl": impl_rep, "model": model_rep})
            tree = vlib.obs_of_impl(per[(ri, fi)], detail=True)["tree"]
            judge_report(res, impl_rep, [tree], files[fi], data)
        # (2) binary, all files: union of the individual reports
        o = outs[ri]
        try:
            arr = json.loads(o["stdout"])
            combined = canon_impl_report(arr[0])
        except Exception:
            res.judge_failures.append({"what": "validate --structured -o json did not print a JSON report (exit %s)" % o["code"],
                                       "class": "c09-json", "rules": files, "data": data, "stdout": o["stdout"][:300], "stderr": o["stderr"][:300]})
            continue
        # libyaml loader attaches line/column, paths are the same
        model_comb = canon_model_report(mresp[ri])
        if combined != model_comb:
            res.disagreements.append({"what": "combined structured report (several rules files): binary and model differ",
                                      "rules": files, "data": data, "impl": combined, "model": model_comb})
        trees = [vlib.obs_of_impl(per[(ri, fi)], detail=True)["tree"] for fi in range(len(files))]
        judge_report(res, combined, trees, files, data)
        if ri < 2:
            res.add_sample({"rules": files, "data": data, "report_status": combined["status"], "compliant": combined["compliant"],
                            "not_applicable": combined["not_applicable"], "not_compliant": [c.get("Rule", {}).get("name") for c in combined["not_compliant"]]})
    return res


def judge_report(res, rep, trees, rules, data):
    """the statements of C09 on the implementation's report against its own tree(s)"""
    by = {}
    for t in trees:
        for c in t["c"]:
            if c["k"] == "RuleCheck":
                by.setdefault(base_rule_name(c["n"]), []).append(c)
    bad = []
    nc_names = [c["Rule"]["name"] for c in rep["not_compliant"] if "Rule" in c]
    for name, recs in by.items():
        sts = {r["s"] for r in recs}
        if len(sts) != 1:
            continue          # several definitions with different statuses: not the distinct-name domain
        s = sts.pop()
        inc = [name in rep["compliant"], name in rep["not_applicable"], name in nc_names]
        exp = [s == "PASS", s == "SKIP", s == "FAIL"]
        if inc != exp:
            bad.append("rule %s has status %s but is listed compliant/not_applicable/not_compliant = %s" % (name, s, inc))
    for name in set(rep["compliant"]) | set(rep["not_applicable"]) | set(nc_names):
        if name not in by:
            bad.append("rule %s is listed but was not evaluated" % name)
    exp_status = "FAIL" if nc_names else ("PASS" if rep["compliant"] else "SKIP")
    if rep["status"] != exp_status:
        bad.append("file status %s but not_compliant=%s compliant=%s" % (rep["status"], nc_names, rep["compliant"]))
    for c in rep["not_compliant"]:
        if "Rule" not in c:
            bad.append("top-level not_compliant entry that is not a rule")
            continue
        name = c["Rule"]["name"]
        leafs, fails = [], []
        cr_leaf_msgs(c, leafs)
        for r in by.get(name, []):
            if r["s"] == "FAIL":
                failed_msgs(r, fails)
        pool = list(fails)
        for m in leafs:
            if m in pool:
                pool.remove(m)
            elif m is not None and m.replace(";", "\n") in pool:
                pool.remove(m.replace(";", "\n"))
            else:
                bad.append("a check listed under rule %s (custom message %r) is not a failed check of that rule" % (name, m))
    for b in bad:
        res.judge_failures.append({"what": "structured report: " + b, "class": "c09-report", "rules": rules, "data": data})


register("C09", ["Guard.Properties.C09"], run_C09, needs_cli=True)


# =============================================================================== C17

def statuses_from_structured(stdout):
    """[(data name, {rule: status})] from `validate --structured -o json`"""
    arr = json.loads(stdout)
    out = []
    for rep in arr:
        st = {}
        for n_ in rep["compliant"]:
            st[base_rule_name(n_)] = "PASS"
        for n_ in rep["not_applicable"]:
            st[base_rule_name(n_)] = "SKIP"
        for c in rep["not_compliant"]:
            if "Rule" in c:
                st[base_rule_name(c["Rule"]["name"])] = "FAIL"
        out.append((rep["name"], st, rep["status"]))
    return out


def run_C17(ctx):
    res = Result("random rule files that read both data and parameter keys x documents whose top-level keys are split at "
                 "random into 1..3 input-parameter files + the data file (disjoint and deliberately overlapping), plain and "
                 "structured mode, real binary, the document from --data files and piped on STDIN; compared with validating the single "
                 "pre-merged document, with every order of the parameter files, and with the Lean merge+evaluator model; symlinked, "
                 "same-named and oddly spelled (True, 0x1F90, ~ ..) parameter files; non-trivial = distinct split that evaluated")
    n = 2500 if ctx.thorough() else 220
    rng = random.Random(ctx.seed)
    jobs, meta = [], []
    for i in range(n):
        g = gen.G(ctx.seed * 1100009 + i, core=True)
        doc = g.doc(depth=3)
        while len(doc) < 3:
            doc[g.ch(gen.KEYS)] = g.value(2)
        rules = g.rules_file(doc, depth=2, cfn=False)
        keys = list(doc.keys())
        rng.shuffle(keys)
        k = rng.choice([1, 2, 3])
        cuts = sorted(rng.sample(range(1, len(keys)), min(k, len(keys) - 1))) if len(keys) > 1 else []
        groups = [keys[a:b] for a, b in zip([0] + cuts, cuts + [len(keys)])]
        data_keys, param_groups = groups[-1], groups[:-1]
        overlap = rng.random() < 0.2 and param_groups
        params = [{kk: doc[kk] for kk in grp} for grp in param_groups]
        data = {kk: doc[kk] for kk in data_keys}
        if overlap:
            dup = rng.choice(list(data.keys()) + [kk for p in params[1:] for kk in p] or list(data.keys()))
            params[0][dup] = 1
            if i % 2 == 1:
                # the SAME value under the same key in two sources is a conflict too (no silent de-duplication)
                params[0][dup] = json.loads(json.dumps(doc[dup]))
            if rng.random() < 0.5:
                # the same key holding a STRUCT in both sources is a conflict like any other
                params[0][dup] = {"m1": 1, "shared": {"a": 1}}
                for src in [data] + params[1:]:
                    if dup in src:
                        src[dup] = {"m2": 2, "shared": {"b": 2}}
        merged = {}
        for pdoc in params:
            merged.update(pdoc)
        merged.update(data)
        if i % 2 == 0:
            # rules that ENUMERATE the top-level map (keys, values), one key from each source
            ks_ = [rng.choice(list(data.keys()))] + [rng.choice(list(pd.keys())) for pd in params if pd]
            extra = ["rule zroot_vals {\nthis.* exists\nsome this.* == %s\n}" % g.lit_of(doc[ks_[-1]])]
            for kk in ks_:
                if "/" not in kk and "'" not in kk:
                    extra.append("rule zroot_key_%d {\nthis[ keys == '%s' ] !empty\n}" % (len(extra), kk))
            extra.append("rule zroot_allkeys {\nthis[ keys == /./ ] !empty\nsome this[ keys == /^%s$/ ] exists\n}" % ks_[0].replace("-", "."))
            rules += "\n".join(extra) + "\n"
        structured = rng.random() < 0.5
        flags = ["--structured", "-o", "json", "-S", "none"] if structured else ["-S", "all"]
        files = {"r.guard": rules, "d.json": json.dumps(data), "m.json": json.dumps(merged)}
        iargs = []
        pname = (lambda j: "p%d.json" % j) if i % 2 else (lambda j: "pdir%d/params.json" % j)    # same base name in several directories
        for j, pdoc in enumerate(params):
            files[pname(j)] = json.dumps(pdoc)
            if i % 5 == 3 and j == len(params) - 1:
                # a parameter file reached through a symbolic link is a parameter file
                files["store/real%d.json" % j] = files[pname(j)]
                files[pname(j)] = {"symlink": "store/real%d.json" % j}
            iargs += ["-i", "{DIR}/" + pname(j)]
        base = len(jobs)
        jobs.append({"argv": ["validate", "-r", "{DIR}/r.guard", "-d", "{DIR}/d.json"] + iargs + flags, "files": files})
        jobs.append({"argv": ["validate", "-r", "{DIR}/r.guard", "-d", "{DIR}/m.json"] + flags, "files": files})
        perm_idx = []
        if len(params) > 1:
            for pm in list(itertools.permutations(range(len(params))))[1:3]:
                ia = []
                for j in pm:
                    ia += ["-i", "{DIR}/" + pname(j)]
                perm_idx.append(len(jobs))
                jobs.append({"argv": ["validate", "-r", "{DIR}/r.guard", "-d", "{DIR}/d.json"] + ia + flags, "files": files})
        two = None
        if params and not overlap and i % 3 == 0:
            # several data files in one run: every one of them is merged with the parameters
            dk = rng.choice(list(data.keys()))
            data2 = dict(data)
            data2[dk] = g.value(1)
            merged2 = dict(merged)
            merged2[dk] = data2[dk]
            files["d2.json"] = json.dumps(data2)
            files["m2.json"] = json.dumps(merged2)
            sf = ["--structured", "-o", "json", "-S", "none"]
            two = (len(jobs), len(jobs) + 1)
            jobs.append({"argv": ["validate", "-r", "{DIR}/r.guard", "-d", "{DIR}/d.json", "-d", "{DIR}/d2.json"] + iargs + sf, "files": files})
            jobs.append({"argv": ["validate", "-r", "{DIR}/r.guard", "-d", "{DIR}/m.json", "-d", "{DIR}/m2.json"] + sf, "files": files})
        # the data document piped on STDIN (no --data): it is merged with the parameter files like a data file is
        sin = None
        if params:
            sin = len(jobs)
            jobs.append({"argv": ["validate", "-r", "{DIR}/r.guard"] + iargs + flags, "files": files, "stdin": json.dumps(data)})
        meta.append({"base": base, "perms": perm_idx, "overlap": bool(overlap), "structured": structured, "rules": rules,
                     "params": params, "data": data, "merged": merged, "two": two, "stdin": sin})
    # parameter files are documents like the data files: scalars that only some YAML readers type (True, 0x1F90, ~, yes,
    # 1_000, 1e3) must mean the same through `-i` as in the pre-merged document written with the SAME spelling
    odd = []
    ODD = [("flag", "True"), ("port", "0x1F90"), ("nothing", "~"), ("agree", "yes"), ("big", "1_000"), ("sci", "1e3"), ("oct", "0o17"),
           ("nul", "Null"), ("off_", "off"), ("ver", "1.10"), ("plus", "+5")]
    odd_rules = "".join("rule %s_%s {\n%s %s\n}\n" % (k_, t_, k_, t_) for k_, _ in ODD for t_ in ("is_string", "is_int", "is_bool", "is_float", "is_null"))
    for k in range(4):
        sel = rng.sample(ODD, 5)
        ptxt = "".join("%s: %s\n" % kv for kv in sel)
        dtxt = "base: 1\n"
        for structured in (False, True):
            flags = ["--structured", "-o", "json", "-S", "none"] if structured else ["-S", "all"]
            fl = {"r.guard": odd_rules, "d.yaml": dtxt, "p.yaml": ptxt, "m.yaml": dtxt + ptxt}
            odd.append((len(jobs), structured, ptxt))
            jobs.append({"argv": ["validate", "-r", "{DIR}/r.guard", "-d", "{DIR}/d.yaml", "-i", "{DIR}/p.yaml"] + flags, "files": fl})
            jobs.append({"argv": ["validate", "-r", "{DIR}/r.guard", "-d", "{DIR}/m.yaml"] + flags, "files": fl})
    outs = vlib.run_cli_many(jobs)
    # model: merge + evaluate
    creqs = [{"id": i, "op": "case", "rules": m["rules"], "data": json.dumps(m["data"]), "loader": "libyaml", "verbose": False} for i, m in enumerate(meta)]
    cresp = ctx.hp.map(creqs)
    preqs, pown = [], []
    for i, m in enumerate(meta):
        for j, pdoc in enumerate(m["params"]):
            preqs.append({"id": len(preqs), "op": "data", "data": json.dumps(pdoc), "loader": "libyaml"})
            pown.append((i, j))
    presp = ctx.hp.map(preqs)
    pdocs = {}
    for (i, j), r in zip(pown, presp):
        pdocs[(i, j)] = r.get("ok")
    mreqs, midx = [], []
    for i, m in enumerate(meta):
        r = cresp[i]
        if r.get("ast", {}).get("ok") is None or "ok" not in r.get("doc", {}):
            continue
        ps = [pdocs.get((i, j)) for j in range(len(m["params"]))]
        if any(p is None for p in ps):
            continue
        env = vlib.env_request(r["ast"]["ok"], [r["doc"]["ok"]] + ps)
        mreqs.append((i, env, r, ps))
    envs = ctx.hp.map([dict(e, id=k) for k, (_, e, _, _) in enumerate(mreqs)])
    mresp = ctx.mp.map([{"id": i, "op": "merge_eval", "ast": r["ast"]["ok"], "doc": r["doc"]["ok"], "params": ps,
                         "env": {k: v for k, v in e.items() if k != "id"}} for (i, _, r, ps), e in zip(mreqs, envs)])
    model = {i: mr for (i, _, _, _), mr in zip(mreqs, mresp)}

    def verdict(o, structured):
        if o["code"] not in (0, 19):
            return ("exit", o["code"])
        if structured:
            try:
                s = statuses_from_structured(o["stdout"])
                return ("ok", o["code"], s[0][1], s[0][2])
            except Exception:
                return ("unparsable-output", o["code"])
        st = {}
        import re as _re
        for mm in _re.finditer(r"^\S+?/(\S+)\s+(PASS|FAIL|SKIP)$", o["stdout"], _re.M):
            st[mm.group(1)] = mm.group(2)
        return ("ok", o["code"], st, None)

    for (j0, structured, ptxt) in odd:
        res.evaluations += 1
        a, b = verdict(outs[j0], structured), verdict(outs[j0 + 1], structured)
        res.stats["c17-odd-scalars:%s" % a[0]] += 1
        if a[:3] != b[:3]:
            both = a[0] == "ok" and b[0] == "ok" and isinstance(a[2], dict) and isinstance(b[2], dict)
            diff = {k_: (a[2].get(k_), b[2].get(k_)) for k_ in (a[2] if both else {}) if a[2].get(k_) != b[2].get(k_)}
            res.judge_failures.append({"what": "a parameter file is typed differently from the same text inside the document: %s" % (diff or (a[:2], b[:2])),
                                       "class": "c17-param-typing", "params": ptxt, "argv": jobs[j0]["argv"], "files": jobs[j0]["files"]})
    for i, m in enumerate(meta):
        res.evaluations += 1
        a = verdict(outs[m["base"]], m["structured"])
        b = verdict(outs[m["base"] + 1], m["structured"])
        res.stats["c17:" + ("overlap" if m["overlap"] else "disjoint") + ":" + str(a[0])] += 1
        info = {"rules": m["rules"], "params": m["params"], "data": m["data"], "structured": m["structured"]}
        if m.get("stdin") is not None:
            c = verdict(outs[m["stdin"]], m["structured"])
            res.stats["c17:stdin-data:%s" % str(c[0])] += 1
            if m["overlap"]:
                if outs[m["stdin"]]["code"] in (0, 19):
                    res.judge_failures.append(dict(info, what="the STDIN document and a parameter file define the same top-level key but the run did not fail (exit %s)" % outs[m["stdin"]]["code"],
                                                   argv=jobs[m["stdin"]]["argv"], **{"class": "c17-stdin-silent-override"}))
            elif c != b:
                res.judge_failures.append(dict(info, what="the document piped on STDIN with parameter files differs from the pre-merged document: %s vs %s" % (c[:3], b[:3]),
                                               argv=jobs[m["stdin"]]["argv"], **{"class": "c17-stdin-merge"}))
        if m["overlap"]:
            o = outs[m["base"]]
            if o["code"] in (0, 19):
                res.judge_failures.append(dict(info, what="two sources define the same top-level key but the run did not fail (exit %s)" % o["code"], **{"class": "c17-silent-override"}))
            elif o["code"] == 255 and "already exists" not in (o["stderr"] + o["stdout"]) and "arser" not in o["stderr"]:
                res.judge_failures.append(dict(info, what="key conflict must be reported as an error naming the key: exit %s, stderr %r" % (o["code"], o["stderr"][:200]), **{"class": "c17-conflict-report"}))
            continue
        res.nontrivial.add(i)
        if a != b:
            res.judge_failures.append(dict(info, what="validating D with parameter files differs from validating the pre-merged document: %s vs %s" % (a[:3], b[:3]), **{"class": "c17-merge"}))
        if m.get("two"):
            oa, ob = outs[m["two"][0]], outs[m["two"][1]]
            res.stats["c17:two-data-files:%s" % oa["code"]] += 1
            try:
                va = [(x[1], x[2]) for x in statuses_from_structured(oa["stdout"])] if oa["code"] in (0, 19) else ("exit", oa["code"])
                vb = [(x[1], x[2]) for x in statuses_from_structured(ob["stdout"])] if ob["code"] in (0, 19) else ("exit", ob["code"])
            except Exception as e:
                va, vb = ("unreadable", str(e)), None
            if va != vb:
                res.judge_failures.append(dict(info, what="two data files with parameter files differ from the two pre-merged documents: %s vs %s" % (va, vb),
                                               argv=jobs[m["two"][0]]["argv"], **{"class": "c17-merge-several-data"}))
        for k in m["perms"]:
            c = verdict(outs[k], m["structured"])
            if c != a:
                res.judge_failures.append(dict(info, what="the order of the parameter files changes the result: %s vs %s" % (a[:3], c[:3]), argv=jobs[k]["argv"], **{"class": "c17-order"}))
        mr = model.get(i)
        if mr is not None and a[0] == "ok":
            mst = {base_rule_name(n_): s for n_, s in mr.get("rules", [])} if "rules" in mr else None
            # several same-named rules: the report keeps one status per name; compare sets of (name,status)
            if mst is None or any(a[2].get(k_) != v_ for k_, v_ in mst.items() if list(n for n, _ in mr["rules"]).count(k_) == 1):
                res.disagreements.append({"what": "merge+evaluate: model %s vs binary %s" % (mr, a[:3]), "rules": m["rules"], "params": m["params"], "data": m["data"]})
        elif mr is not None and a[0] == "exit" and "rules" in mr and a[1] == 255:
            res.disagreements.append({"what": "binary errored (exit 255) where the model evaluates: %s" % mr, "rules": m["rules"], "params": m["params"], "data": m["data"],
                                      "stderr": outs[m["base"]]["stderr"][:300]})
        if i < 2:
            res.add_sample({"params": m["params"], "data": m["data"], "verdict": a[:3]})
    return res


register("C17", ["Guard.Properties.C17"], run_C17, needs_cli=True)


# =============================================================================== C16

def run_C16(ctx):
    res = Result("random rules files (some rule names defined several times) x 1..4 generated inputs x expectation assignments "
                 "(all 3^k for k <= 2 rules, sampled beyond; some rules left without expectation) run through the real `test` "
                 "command in plain / json / yaml / junit format and single-file / --dir layout, compared with the statuses "
                 "`validate` (library entry point) assigns to the same rules on the same inputs, with the Lean classification "
                 "model, and across formats; the rules file between two other rules files of the directory whose expectations are met; "
                 "raw number spellings (-0, 1e2, 0.10 ..) in JSON and YAML test files with expectations taken from `validate` on the "
                 "same text; non-trivial = test run whose rules file parsed")
    import yaml as _yaml
    import xml.etree.ElementTree as ET
    import re as _re
    n = 1500 if ctx.thorough() else 160
    rng = random.Random(ctx.seed)
    scen = []
    for i in range(n):
        g = gen.G(ctx.seed * 1300021 + i, core=True)
        doc = g.doc()
        rules = g.rules_file(doc, depth=2, cfn=False)
        if "r.guard" in rules:
            continue
        names = sorted(set(_re.findall(r"^rule (\w+)", rules, _re.M)))
        if not names:
            continue
        inputs = [doc] + [gen.G(ctx.seed * 77 + i * 13 + k).doc() for k in range(rng.choice([0, 1, 2, 3]))]
        specs = []
        for k, inp in enumerate(inputs):
            exp = {}
            for nm in names:
                if rng.random() < 0.75:
                    exp[nm] = rng.choice(["PASS", "FAIL", "SKIP"])
            specs.append({"name": "case%d" % k, "input": inp, "expectations": {"rules": exp}})
        scen.append({"rules": rules, "names": names, "specs": specs, "layout": rng.choice(["single", "dir"])})
    # validate side: statuses of every rule on every input (library entry point)
    creqs, cown = [], []
    for si, s in enumerate(scen):
        for k, sp in enumerate(s["specs"]):
            creqs.append({"id": len(creqs), "op": "case", "rules": s["rules"], "data": json.dumps(sp["input"])})
            cown.append((si, k))
    cresp = ctx.hp.map(creqs)
    vstat = {}
    for (si, k), r in zip(cown, cresp):
        vstat[(si, k)] = vlib.obs_of_impl(r)
    # test side: real binary, four formats
    jobs, jown = [], []
    for si, s in enumerate(scen):
        tests = json.dumps(s["specs"]) if rng.random() < 0.5 else _yaml.safe_dump(s["specs"], default_flow_style=False)
        for fmt in ("plain", "json", "yaml", "junit"):
            oargs = [] if fmt == "plain" else ["-o", fmt]
            if s["layout"] == "single":
                jobs.append({"argv": ["test", "-r", "{DIR}/x.guard", "-t", "{DIR}/x_tests.yaml"] + oargs,
                             "files": {"x.guard": s["rules"], "x_tests.yaml": tests}})
            else:
                jobs.append({"argv": ["test", "-d", "{DIR}"] + oargs,
                             "files": {"x.guard": s["rules"], "tests/x_tests.yaml": tests}})
            jown.append((si, fmt))
        if len(s["specs"]) >= 2:
            # the same cases split over two test files of one rules file (in both orders of the halves): the verdict of
            # the run is the verdict of all its files, whichever comes last
            h = len(s["specs"]) // 2
            for tag, first, second in (("split", s["specs"][:h], s["specs"][h:]), ("split-rev", s["specs"][h:], s["specs"][:h])):
                fl = {"x.guard": s["rules"], "t/a_tests.json": json.dumps(first), "t/b_tests.json": json.dumps(second)}
                fd = {"x.guard": s["rules"], "tests/x_a_tests.json": json.dumps(first), "tests/x_b_tests.json": json.dumps(second)}
                for fmt in ("plain", "json"):
                    oargs = [] if fmt == "plain" else ["-o", fmt]
                    jobs.append({"argv": ["test", "-r", "{DIR}/x.guard", "-t", "{DIR}/t", "-a"] + oargs, "files": fl})
                    jown.append((si, tag + "-" + fmt))
                    jobs.append({"argv": ["test", "-d", "{DIR}"] + oargs, "files": fd})
                    jown.append((si, tag + "-dir-" + fmt))
        # the scenario's rules file between two other rules files of the directory whose expectations are all met: unmet
        # expectations anywhere make the run fail, in every format
        okr = "rule ok {\nthis exists\n}\n"
        okt = json.dumps([{"name": "fine", "input": {"a": 1}, "expectations": {"rules": {"ok": "PASS"}}}])
        fm = {"x.guard": s["rules"], "tests/x_tests.yaml": tests, "0first.guard": okr, "tests/0first_tests.json": okt,
              "zlast.guard": okr, "tests/zlast_tests.json": okt}
        for fmt in ("plain", "json", "yaml", "junit"):
            jobs.append({"argv": ["test", "-d", "{DIR}"] + ([] if fmt == "plain" else ["-o", fmt]), "files": fm})
            jown.append((si, "multi-" + fmt))
    # number spellings in JSON / YAML test files: `test` must type the input like `validate` types the same document
    nj, nown = [], []
    NUMS = ["-0", "0", "-0.0", "1e2", "1E+2", "100", "0.10", "-1", "9223372036854775807", "1.0", "5e-1"]
    nrules = "rule is_i {\nx is_int\n}\nrule is_f {\nx is_float\n}\nrule eq0 {\nx == 0\n}\nrule eq0f {\nx == 0.0\n}\nrule le100 {\nx <= 100\n}\n"
    for ni, sp_ in enumerate(NUMS):
        nj.append({"argv": ["validate", "-r", "{DIR}/n.guard", "-d", "{DIR}/d.json", "--structured", "-o", "json", "-S", "none"],
                   "files": {"n.guard": nrules, "d.json": '{"x": %s}' % sp_}})
        nown.append((ni, "validate"))
    nouts = dict(zip(nown, vlib.run_cli_many(nj)))
    nj2, nown2 = [], []
    for ni, sp_ in enumerate(NUMS):
        vo = nouts[(ni, "validate")]
        try:
            Pn = partition_of_report(json.loads(vo["stdout"])[0])
        except Exception:
            res.stats["c16-number-validate-unreadable"] += 1
            continue
        exp_ = {nm: st for st in ("PASS", "FAIL", "SKIP") for nm in Pn[st]}
        flip = dict(exp_, is_i=("FAIL" if exp_.get("is_i") == "PASS" else "PASS"))
        for tag, ex_, wantc in (("met", exp_, 0), ("flipped", flip, 7)):
            erules = ", ".join('"%s": "%s"' % kv for kv in sorted(ex_.items()))
            tjson = '[{"name": "n", "input": {"x": %s}, "expectations": {"rules": {%s}}}]' % (sp_, erules)
            tyaml = "- name: n\n  input:\n    x: %s\n  expectations:\n    rules: {%s}\n" % (sp_, erules)
            for tf_, ttxt in (("n_tests.json", tjson), ("n_tests.yaml", tyaml)):
                for fmt in ("plain", "json"):
                    nj2.append({"argv": ["test", "-r", "{DIR}/n.guard", "-t", "{DIR}/" + tf_] + ([] if fmt == "plain" else ["-o", fmt]),
                                "files": {"n.guard": nrules, tf_: ttxt}})
                    nown2.append((sp_, tag, tf_, fmt, wantc, ttxt))
    for (sp_, tag, tf_, fmt, wantc, ttxt), o_ in zip(nown2, vlib.run_cli_many(nj2)):
        res.evaluations += 1
        res.stats["c16-number-spelling:%s" % tf_.split(".")[-1]] += 1
        res.nontrivial.add(("num", sp_, tag, tf_, fmt))
        if o_["code"] != wantc:
            res.judge_failures.append({"what": "input number `%s` in a %s test file (%s): expectations taken from `validate` on {\"x\": %s} are %s, yet test exits %s (expected %s)" % (
                                           sp_, tf_.split(".")[-1].upper(), fmt, sp_, tag, o_["code"], wantc),
                                       "class": "c16-number-typing", "rules": nrules, "tests": ttxt, "stdout": o_["stdout"][:400]})
    outs = dict(zip(jown, vlib.run_cli_many(jobs)))
    # model classification from the validate statuses
    mreqs, mown = [], []
    for si, s in enumerate(scen):
        for k, sp in enumerate(s["specs"]):
            v = vstat[(si, k)]
            if v["kind"] == "ok":
                mreqs.append({"id": len(mreqs), "op": "test_classify", "statuses": v["rules"],
                              "expectations": [[a, b] for a, b in sp["expectations"]["rules"].items()]})
                mown.append((si, k))
    mcls = dict(zip(mown, ctx.mp.map(mreqs)))

    def canon_case(tc):
        return {"passed": sorted((base_rule_name(p["name"]), p["evaluated"]) for p in tc["passed_rules"]),
                "failed": sorted((base_rule_name(f["name"]), f["expected"], tuple(f["evaluated"])) for f in tc["failed_rules"]),
                "skipped": sorted(base_rule_name(x["name"]) for x in tc["skipped_rules"])}

    for si, s in enumerate(scen):
        res.evaluations += 1
        oj = outs[(si, "json")]
        vs = [vstat[(si, k)] for k in range(len(s["specs"]))]
        info = {"rules": s["rules"], "specs": s["specs"], "layout": s["layout"]}
        if any(v["kind"] != "ok" for v in vs):
            res.stats["c16-skipped:" + ",".join(sorted({v["kind"] for v in vs}))] += 1
            # evaluation error / parse error: test must not claim success
            if oj["code"] == 0 and any(v["kind"] == "err" for v in vs):
                res.judge_failures.append(dict(info, what="an input raises an evaluation error under validate but test exits 0", **{"class": "c16-error"}))
            continue
        try:
            tj = json.loads(oj["stdout"])
            if isinstance(tj, list):
                tj = tj[0]
            cases = [canon_case(tc) for tc in tj["test_cases"]]
        except Exception as e:
            res.judge_failures.append(dict(info, what="test -o json output is not the expected JSON (%s), exit %s" % (e, oj["code"]), stdout=oj["stdout"][:300], **{"class": "c16-json"}))
            continue
        res.nontrivial.add(si)
        res.stats["c16-layout:" + s["layout"]] += 1
        any_failed = False
        for k, (sp, tc, v) in enumerate(zip(s["specs"], cases, vs)):
            by = {}
            for nm, st in v["rules"]:
                by.setdefault(base_rule_name(nm), []).append(st)
            exp = sp["expectations"]["rules"]
            want = {"passed": [], "failed": [], "skipped": []}
            for nm, sts in by.items():
                if nm not in exp:
                    want["skipped"].append(nm)
                    continue
                e = exp[nm]
                met = (e != "SKIP" and e in sts) or (e == "SKIP" and all(x == "SKIP" for x in sts))
                if met:
                    want["passed"].append((nm, e))
                else:
                    want["failed"].append(nm)
                    any_failed = True
            got_failed = sorted(f[0] for f in tc["failed"])
            if sorted(want["passed"]) != tc["passed"] or sorted(want["failed"]) != got_failed or sorted(want["skipped"]) != tc["skipped"]:
                res.judge_failures.append(dict(info, what="test case %d: test reports %s but validate assigns %s with expectations %s" % (k, tc, by, exp), **{"class": "c16-verdict"}))
            for f in tc["failed"]:
                if list(f[2]) != by.get(f[0], []) and not (exp.get(f[0]) != "SKIP" and list(f[2]) == by.get(f[0], [])[:len(f[2])]):
                    res.judge_failures.append(dict(info, what="test case %d: evaluated statuses of %s are %s under test but %s under validate" % (k, f[0], list(f[2]), by.get(f[0])), **{"class": "c16-status"}))
            m = mcls.get((si, k))
            if m is not None:
                mc = {"passed": sorted((base_rule_name(o["name"]), o["evaluated"]) for o in m["outcomes"] if o["k"] == "passed"),
                      "failed": sorted((base_rule_name(o["name"]), o["expected"], tuple(o["evaluated"])) for o in m["outcomes"] if o["k"] == "failed"),
                      "skipped": sorted(base_rule_name(o["name"]) for o in m["outcomes"] if o["k"] == "skipped")}
                if mc != tc:
                    res.disagreements.append(dict(info, what="test classification: model %s vs binary %s (case %d)" % (mc, tc, k)))
        if (oj["code"] == 7) != any_failed or (oj["code"] == 0) != (not any_failed):
            res.judge_failures.append(dict(info, what="exit code %s but some expectation mismatched = %s" % (oj["code"], any_failed), **{"class": "c16-exit"}))
        # the cases split over two test files: same exit code
        if oj["code"] in (0, 7):
            for key in ("split-plain", "split-json", "split-dir-plain", "split-dir-json", "split-rev-plain", "split-rev-json",
                        "split-rev-dir-plain", "split-rev-dir-json"):
                if (si, key) in outs:
                    res.stats["c16-split-compared"] += 1
                    if outs[(si, key)]["code"] != oj["code"]:
                        res.judge_failures.append(dict(info, what="the same test cases split over two test files (%s) exit %s, in one file %s" % (
                            key, outs[(si, key)]["code"], oj["code"]), **{"class": "c16-split"}))
                        break
        if oj["code"] in (0, 7):
            for fmt in ("plain", "json", "yaml", "junit"):
                res.stats["c16-multi-rules-dir-compared"] += 1
                if outs[(si, "multi-" + fmt)]["code"] != oj["code"]:
                    res.judge_failures.append(dict(info, what="--dir with two more rules files whose expectations are met (%s): exit %s, the rules file alone exits %s" % (
                        fmt, outs[(si, "multi-" + fmt)]["code"], oj["code"]), **{"class": "c16-multi-dir"}))
                    break
        # formats agree
        oy, op_, ox = outs[(si, "yaml")], outs[(si, "plain")], outs[(si, "junit")]
        try:
            ty = _yaml.safe_load(oy["stdout"].replace("{DIR}", "DIR"))
            if isinstance(ty, list):
                ty = ty[0]
            if [canon_case(tc) for tc in ty["test_cases"]] != cases:
                res.judge_failures.append(dict(info, what="YAML rendering of the test run differs from the JSON rendering", **{"class": "c16-format"}))
        except Exception as e:
            res.judge_failures.append(dict(info, what="test -o yaml output unreadable: %s" % e, **{"class": "c16-format"}))
        if len({oj["code"], oy["code"], op_["code"], ox["code"]}) != 1:
            res.judge_failures.append(dict(info, what="exit codes differ across formats: plain %s json %s yaml %s junit %s" % (op_["code"], oj["code"], oy["code"], ox["code"]), **{"class": "c16-format"}))
        # plain: PASS/FAIL sections and no-expectation lines per test case
        blocks = _re.split(r"^Test Case #\d+\n", op_["stdout"], flags=_re.M)[1:]
        if len(blocks) == len(cases):
            for b, tc in zip(blocks, cases):
                sec, pl = None, {"PASS": [], "FAIL": [], "none": []}
                for line in b.split("\n"):
                    mm = _re.match(r"^\s+No Test expectation was set for Rule (\S+)", line)
                    if mm:
                        pl["none"].append(base_rule_name(mm.group(1)))
                    elif _re.match(r"^\s+PASS Rules:", line):
                        sec = "PASS"
                    elif _re.match(r"^\s+FAIL Rules:", line):
                        sec = "FAIL"
                    else:
                        mm = _re.match(r"^\s+(\S+): Expected = ", line)
                        if mm and sec:
                            pl[sec].append(mm.group(1))
                if sorted(pl["PASS"]) != sorted(p[0] for p in tc["passed"]) or sorted(pl["FAIL"]) != sorted(f[0] for f in tc["failed"]) or sorted(pl["none"]) != tc["skipped"]:
                    res.judge_failures.append(dict(info, what="plain rendering %s disagrees with JSON rendering %s" % (pl, tc), **{"class": "c16-format"}))
        else:
            res.judge_failures.append(dict(info, what="plain rendering has %d test cases, JSON %d" % (len(blocks), len(cases)), **{"class": "c16-format"}))
        # junit: one testcase per (case, rule with expectation); failure element iff failed
        try:
            root = ET.fromstring(ox["stdout"])
            got = sorted((t.get("id"), base_rule_name(t.get("name")), t.find("failure") is not None) for t in root.iter("testcase"))
            want = sorted([(sp["name"], p[0], False) for sp, tc in zip(s["specs"], cases) for p in tc["passed"]] +
                          [(sp["name"], f[0], True) for sp, tc in zip(s["specs"], cases) for f in tc["failed"]])
            if got != want:
                res.judge_failures.append(dict(info, what="JUnit cases %s disagree with JSON rendering %s" % (got, want), **{"class": "c16-format"}))
            # the totals the XML states about itself
            for el in [root] + list(root.iter("testsuite")):
                nf = sum(1 for t in el.iter("testcase") if t.find("failure") is not None)
                ne = sum(1 for t in el.iter("testcase") if t.find("error") is not None)
                if el.get("failures") is not None and int(el.get("failures")) != nf:
                    res.judge_failures.append(dict(info, what="JUnit <%s failures=%s> but it contains %d failed test cases" % (el.tag, el.get("failures"), nf), **{"class": "c16-junit-totals"}))
                if el.get("errors") is not None and int(el.get("errors")) != ne:
                    res.judge_failures.append(dict(info, what="JUnit <%s errors=%s> but it contains %d test cases in error" % (el.tag, el.get("errors"), ne), **{"class": "c16-junit-totals"}))
                if el.tag == "testsuites" and el.get("tests") is not None and int(el.get("tests")) != sum(1 for _ in el.iter("testcase")):
                    res.judge_failures.append(dict(info, what="JUnit <testsuites tests=%s> but it contains %d test cases" % (el.get("tests"), sum(1 for _ in el.iter("testcase"))), **{"class": "c16-junit-totals"}))
        except ET.ParseError as e:
            res.judge_failures.append(dict(info, what="JUnit output is not well-formed XML: %s" % e, **{"class": "c16-format"}))
        if si < 2:
            res.add_sample({"rules": s["rules"][:300], "cases": cases, "exit": oj["code"]})
    return res


register("C16", ["Guard.Properties.C16"], run_C16, needs_cli=True)


# =============================================================================== C12

def py_combine(reps):
    """union of canonical reports in rules-file order (FileReport::combine starting from the default report)"""
    st = "SKIP"
    out = {"compliant": set(), "not_applicable": set(), "not_compliant": []}
    for r in reps:
        a, b = st, r["status"]
        st = "FAIL" if a == "FAIL" else (("FAIL" if b == "FAIL" else "PASS") if a == "PASS" else b)
        out["compliant"] |= set(r["compliant"])
        out["not_applicable"] |= set(r["not_applicable"])
        out["not_compliant"] += r["not_compliant"]
    return {"status": st, "compliant": sorted(out["compliant"]), "not_applicable": sorted(out["not_applicable"]),
            "not_compliant": out["not_compliant"]}


CAPTURE_RULE = "rule cap {\nlet c = count(%n)\nm[ n | x exists ] !empty\n%c == 2\n}\n"


def run_C12(ctx):
    res = Result("batches of 1..3 rules files (sharing variable, rule and key-capture names on purpose) x 1..4 documents, real "
                 "binary: structured and plain batch vs every pair validated alone, every order of the -r / -d arguments, "
                 "directories with -a and -m (controlled mtimes), `-d .` from inside the directory, files below dot-directories, "
                 "symbolic links, --payload lists, -i parameters, SARIF / JUnit per data file; test files with n cases (named, "
                 "unnamed, sharing one name) vs the cases alone; non-trivial = batch with >= 2 pairs that evaluated")
    n = 900 if ctx.thorough() else 70
    rng = random.Random(ctx.seed)
    jobs = []
    scen = []

    def add(job):
        jobs.append(job)
        return len(jobs) - 1
    for i in range(n):
        g = gen.G(ctx.seed * 1700033 + i, core=True)
        ndocs = rng.choice([1, 2, 3, 4])
        docs = []
        for k in range(ndocs):
            d = gen.G(ctx.seed * 31 + i * 7 + k).doc()
            d["m"] = {"a": {"x": 1}, "b": {"x": 2}} if rng.random() < 0.7 else {"a": {"x": 1}}
            docs.append(d)
        if ndocs >= 2 and rng.random() < 0.35:
            docs[1] = json.loads(json.dumps(docs[0]))      # two copies of one template (dev / prod): same findings in both
        nr = rng.choice([1, 2, 3])
        rfiles = []
        for k in range(nr):
            txt = g.rules_file(docs[0], depth=2, cfn=False)
            if rng.random() < 0.6:
                txt += CAPTURE_RULE
            rfiles.append(txt)
        if i % 4 == 2 and nr < 3:
            # a rules file without any rule (comments only), in front of the others
            rfiles.insert(0, "# nothing here yet\n\n")
            nr += 1
        files = {}
        for k, t in enumerate(rfiles):
            files["rd/r%d.guard" % k] = t
        for k, d in enumerate(docs):
            files["dd/d%d.json" % k] = json.dumps(d)
        sflags = ["--structured", "-o", "json", "-S", "none"]
        rargs = lambda order: sum([["-r", "{DIR}/rd/r%d.guard" % k] for k in order], [])
        dargs = lambda order: sum([["-d", "{DIR}/dd/d%d.json" % k] for k in order], [])
        s = {"rfiles": rfiles, "docs": docs}
        s["batch"] = add({"argv": ["validate"] + rargs(range(nr)) + dargs(range(ndocs)) + sflags, "files": files})
        s["plain"] = add({"argv": ["validate"] + rargs(range(nr)) + dargs(range(ndocs)) + ["-S", "all"], "files": files})
        s["single"] = {(a, b): add({"argv": ["validate"] + rargs([a]) + dargs([b]) + sflags, "files": files})
                       for a in range(nr) for b in range(ndocs)}
        ro, do = list(range(nr)), list(range(ndocs))
        rng.shuffle(ro)
        rng.shuffle(do)
        s["perm"] = add({"argv": ["validate"] + rargs(ro) + dargs(do) + sflags, "files": files})
        s["perm_r"] = ro
        s["dir_a"] = add({"argv": ["validate", "-r", "{DIR}/rd", "-d", "{DIR}/dd", "-a"] + sflags, "files": files})
        # a data file and a rules file reached through symbolic links are files like the others
        fl_ = dict(files)
        fl_["store/d0.json"] = files["dd/d0.json"]
        fl_["dd/d0.json"] = {"symlink": "store/d0.json"}
        fl_["store/r0.guard"] = files["rd/r0.guard"]
        fl_["rd/r0.guard"] = {"symlink": "store/r0.guard"}
        s["dir_link"] = add({"argv": ["validate", "-r", "{DIR}/rd", "-d", "{DIR}/dd", "-a"] + sflags, "files": fl_})
        # relative directory arguments from inside the data directory (`-d .`), and files below dot-directories: the walk
        # finds the same files as the explicit arguments do
        s["dir_dot"] = add({"argv": ["validate", "-r", "../rd", "-d", ".", "-a"] + sflags, "files": files, "cwd_sub": "dd"})
        fh_ = {("rd/.base/r0.guard" if k_ == "rd/r0.guard" else "dd/.stage/d0.json" if k_ == "dd/d0.json" else k_): v_ for k_, v_ in files.items()}
        s["dir_hidden"] = add({"argv": ["validate", "-r", "{DIR}/rd", "-d", "{DIR}/dd", "-a"] + sflags, "files": fh_})
        mt = {name: 1700000000 + rng.randrange(100000) for name in files}
        s["dir_m"] = add({"argv": ["validate", "-r", "{DIR}/rd", "-d", "{DIR}/dd", "-m"] + sflags, "files": files, "mtimes": mt})
        s["mt"] = mt
        if nr >= 2:
            fb = dict(files)
            fb["ta/checks.guard"] = rfiles[0]
            fb["tb/checks.guard"] = rfiles[1]
            s["samebase"] = add({"argv": ["validate", "-r", "{DIR}/ta/checks.guard", "-r", "{DIR}/tb/checks.guard"] + dargs(range(ndocs)) + sflags, "files": fb})
            s["samebase_ref"] = add({"argv": ["validate"] + rargs([0, 1]) + dargs(range(ndocs)) + sflags, "files": files})
        s["payload"] = add({"argv": ["validate", "--payload"] + sflags, "files": {},
                            "stdin": json.dumps({"rules": rfiles, "data": [json.dumps(d) for d in docs]})})
        if ndocs >= 2 and not any("zparam" in d for d in docs):
            # input parameters: every data file of the batch is evaluated with them, like each one alone
            fp = dict(files)
            fp["p.json"] = json.dumps({"zparam": 5})
            fp["pr.guard"] = "rule zparam_rule {\nzparam == 5\n}\nrule zm {\nm.a.x == 1\n}\n"
            pfl = ["-i", "{DIR}/p.json", "--structured", "-o", "json", "-S", "none"]
            s["batch_i"] = add({"argv": ["validate", "-r", "{DIR}/pr.guard"] + dargs(range(ndocs)) + pfl, "files": fp})
            s["single_i"] = [add({"argv": ["validate", "-r", "{DIR}/pr.guard"] + dargs([b]) + pfl, "files": fp}) for b in range(ndocs)]
        if ndocs >= 2:
            # SARIF and JUnit renderings of the batch vs each data file validated alone (all rules files)
            for fmt in ("sarif", "junit"):
                fl = ["--structured", "-o", fmt, "-S", "none"]
                s["batch_" + fmt] = add({"argv": ["validate"] + rargs(range(nr)) + dargs(range(ndocs)) + fl, "files": files})
                s["single_" + fmt] = [add({"argv": ["validate"] + rargs(range(nr)) + dargs([b]) + fl, "files": files}) for b in range(ndocs)]
            if nr >= 2:
                fl = ["--structured", "-o", "junit", "-S", "none"]
                s["rsingle_junit"] = [add({"argv": ["validate"] + rargs([a]) + dargs(range(ndocs)) + fl, "files": files}) for a in range(nr)]
        scen.append(s)
    outs = vlib.run_cli_many(jobs)

    def reports(o):
        if o["code"] not in (0, 19, 5):
            return None
        try:
            return {os.path.basename(r["name"]): canon_impl_report(r) for r in json.loads(o["stdout"])}
        except Exception:
            return None

    def strip_loc(rep):
        return rep

    for si, s in enumerate(scen):
        res.evaluations += 1
        nr, nd = len(s["rfiles"]), len(s["docs"])
        info = {"rules": s["rfiles"], "data": [json.dumps(d) for d in s["docs"]]}
        singles = {k: reports(outs[j]) for k, j in s["single"].items()}
        single_codes = {k: outs[j]["code"] for k, j in s["single"].items()}
        batch = reports(outs[s["batch"]])
        if batch is None or any(v is None for v in singles.values()):
            res.stats["c12-batch-error"] += 1
            # an erroring pair must make the batch error too (no silent success)
            if any(c == 255 for c in single_codes.values()) and outs[s["batch"]]["code"] in (0, 19):
                res.judge_failures.append(dict(info, what="a pair errors when validated alone but the batch exits %s" % outs[s["batch"]]["code"], **{"class": "c12-error"}))
            continue
        if nr * nd >= 2:
            res.nontrivial.add(si)
        res.stats["c12-pairs:%d" % (nr * nd)] += 1

        def expected(order):
            return {"d%d.json" % b: py_combine([singles[(a, b)]["d%d.json" % b] for a in order if singles[(a, b)] and "d%d.json" % b in singles[(a, b)]])
                    for b in range(nd)}
        exp = expected(range(nr))
        if batch != exp:
            res.judge_failures.append(dict(info, what="batch report differs from the union of the pairs validated alone", batch=batch, pairs=exp, **{"class": "c12-batch"}))
        pm = reports(outs[s["perm"]])
        if pm != expected(s["perm_r"]):
            res.judge_failures.append(dict(info, what="giving the files in another order changes a pair's result", **{"class": "c12-order"}))
        for key in ("dir_a", "dir_m", "dir_link", "dir_dot", "dir_hidden"):
            dr = reports(outs[s[key]])
            if dr is None:
                res.judge_failures.append(dict(info, what="directory run %s failed: exit %s %s" % (key, outs[s[key]]["code"], outs[s[key]]["stderr"][:200]), **{"class": "c12-dir"}))
                continue
            order = list(range(nr)) if key != "dir_m" else sorted(range(nr), key=lambda k: s["mt"]["rd/r%d.guard" % k])
            if dr != expected(order):
                res.judge_failures.append(dict(info, what="walking directories (%s) changes a pair's result" % key, got=dr, want=expected(order), **{"class": "c12-dir"}))
        # payload: data names are DATA_STDIN[i]
        po = outs[s["payload"]]
        try:
            pl = [canon_impl_report(r) for r in json.loads(po["stdout"])]
            want = [exp["d%d.json" % b] for b in range(nd)]

            def noloc(r):
                return json.loads(json.dumps(r))
            if [noloc(x) for x in pl] != [noloc(x) for x in want]:
                res.judge_failures.append(dict(info, what="--payload batch differs from the pairs validated alone", **{"class": "c12-payload"}))
        except Exception as e:
            res.judge_failures.append(dict(info, what="--payload output unreadable (%s), exit %s" % (e, po["code"]), **{"class": "c12-payload"}))
        # two rules files with the same base name in different directories are two rules files
        if "samebase" in s:
            ra, rb = reports(outs[s["samebase"]]), reports(outs[s["samebase_ref"]])
            if ra != rb or outs[s["samebase"]]["code"] != outs[s["samebase_ref"]]["code"]:
                res.judge_failures.append(dict(info, what="two rules files with the same base name in different directories give another result than the same files under distinct names (exit %s vs %s)" % (
                    outs[s["samebase"]]["code"], outs[s["samebase_ref"]]["code"]), **{"class": "c12-same-base-name"}))
        # SARIF / JUnit: what the batch says about a data file is what a run on that file alone says
        if "batch_sarif" in s:
            def sarif_by_file(o):
                try:
                    out_ = {}
                    for run in json.loads(o["stdout"])["runs"]:
                        for r_ in run.get("results", []):
                            loc = (r_.get("locations") or [{}])[0].get("physicalLocation", {})
                            f_ = os.path.basename(loc.get("artifactLocation", {}).get("uri", "?"))
                            out_.setdefault(f_, []).append((r_.get("ruleId"), r_.get("level"), (r_.get("message") or {}).get("text"),
                                                            json.dumps(loc.get("region"), sort_keys=True)))
                    return {k_: sorted(v_) for k_, v_ in out_.items()}
                except Exception:
                    return None

            def junit_by_file(o):
                import xml.etree.ElementTree as ET
                try:
                    root = ET.fromstring(o["stdout"])
                    out_ = {}
                    for ts in root.iter("testsuite"):
                        attrs = {k_: v_ for k_, v_ in ts.attrib.items() if k_ not in ("time", "id")}
                        attrs["name"] = os.path.basename(attrs.get("name", ""))
                        cases_ = sorted((tc.attrib.get("name"), tc.attrib.get("status"), sorted(ch.tag for ch in tc)) for tc in ts.iter("testcase"))
                        out_[attrs["name"]] = (sorted(attrs.items()), cases_)
                    return out_
                except Exception:
                    return None
            for fmt, fn in (("sarif", sarif_by_file), ("junit", junit_by_file)):
                bo = outs[s["batch_" + fmt]]
                so = [outs[j] for j in s["single_" + fmt]]
                if bo["code"] not in (0, 19) or any(o_["code"] not in (0, 19) for o_ in so):
                    continue
                bf = fn(bo)
                res.stats["c12-%s-compared" % fmt] += 1
                for b, o_ in enumerate(so):
                    sf = fn(o_)
                    name = "d%d.json" % b
                    if bf is None or sf is None:
                        res.judge_failures.append(dict(info, what="%s output unreadable" % fmt, **{"class": "c12-" + fmt}))
                        break
                    if bf.get(name) != sf.get(name):
                        res.judge_failures.append(dict(info, what="%s: the batch reports %s for %s, the file validated alone gives %s" % (
                            fmt, str(bf.get(name))[:300], name, str(sf.get(name))[:300]), **{"class": "c12-" + fmt}))
                        break
        if "batch_i" in s:
            bi_ = reports(outs[s["batch_i"]])
            si_ = [reports(outs[j]) for j in s["single_i"]]
            if bi_ is not None and all(x is not None for x in si_):
                res.stats["c12-params-compared"] += 1
                for b, x in enumerate(si_):
                    name = "d%d.json" % b
                    if bi_.get(name) != x.get(name):
                        res.judge_failures.append(dict(info, what="with input parameters the batch reports %s for %s, the file alone gives %s" % (
                            str(bi_.get(name))[:300], name, str(x.get(name))[:300]), **{"class": "c12-params"}))
                        break
        # JUnit names every test case after its rules file: the batch must attribute to each rules file what a run with
        # that rules file alone reports
        if "rsingle_junit" in s and "batch_junit" in s:
            bo = outs[s["batch_junit"]]
            ro_ = [outs[j] for j in s["rsingle_junit"]]
            if bo["code"] in (0, 19) and all(o_["code"] in (0, 19) for o_ in ro_):
                bf = junit_by_file(bo)
                res.stats["c12-junit-by-rules-compared"] += 1
                for a, o_ in enumerate(ro_):
                    sf = junit_by_file(o_)
                    if bf is None or sf is None:
                        break
                    bad_ = None
                    for dname, (_, cases_) in sf.items():
                        bcases = dict((c_[0], c_) for c_ in (bf.get(dname) or ([], []))[1])
                        for c_ in cases_:
                            if bcases.get(c_[0]) != c_:
                                bad_ = "junit: rules file %s alone gives %s for %s, the batch has %s" % (c_[0], c_, dname, bcases.get(c_[0]))
                    if bad_:
                        res.judge_failures.append(dict(info, what=bad_, **{"class": "c12-junit-rules"}))
                        break
        # failure iff some pair fails
        any_fail = any(c == 19 for c in single_codes.values())
        all_ok = all(c in (0, 19) for c in single_codes.values())
        if all_ok and (outs[s["batch"]]["code"] == 19) != any_fail:
            res.judge_failures.append(dict(info, what="batch exit %s but some pair FAILs = %s" % (outs[s["batch"]]["code"], any_fail), **{"class": "c12-exit"}))
        # plain: (data, rules file / rule, status) triples
        import re as _re
        trip = sorted(_re.findall(r"^(r\d+\.guard/\S+)\s+(PASS|FAIL|SKIP)$", outs[s["plain"]]["stdout"], _re.M))
        want = []
        for (a, b), rep in singles.items():
            r_ = rep["d%d.json" % b]
            for nm in r_["compliant"]:
                want.append(("r%d.guard/%s" % (a, nm), "PASS"))
            for nm in r_["not_applicable"]:
                want.append(("r%d.guard/%s" % (a, nm), "SKIP"))
            for c in r_["not_compliant"]:
                if "Rule" in c:
                    want.append(("r%d.guard/%s" % (a, c["Rule"]["name"]), "FAIL"))
        # a name defined several times has one line in the summary table but may sit under two headings
        # of the structured report: compare names, and statuses as a subset
        if (not set(trip) <= set(want) or {t[0] for t in trip} != {w[0] for w in want}) and "default" not in json.dumps(want):
            res.judge_failures.append(dict(info, what="plain batch summary %s differs from the pairs alone %s" % (sorted(set(trip)), sorted(set(want))), **{"class": "c12-plain"}))
        if si < 2:
            res.add_sample({"rules_files": nr, "documents": nd, "batch_status": {k: v["status"] for k, v in batch.items()}})
    c12_test_cases(ctx, res, rng)
    return res


def c12_test_cases(ctx, res, rng):
    """`cfn-guard test`: a test file with n cases vs each case in a file of its own (plain, json, yaml, junit;
    rules that refer to other rules by name and share variables, so that anything kept between cases shows)"""
    import re as _re
    import yaml as _yaml
    n = 500 if ctx.thorough() else 50
    jobs, scen = [], []
    for i in range(n):
        g = gen.G(ctx.seed * 4100023 + i, core=True)
        docs = [g.doc()] + [gen.G(ctx.seed * 59 + i * 11 + k).doc() for k in range(rng.choice([1, 2, 3]))]
        rules = g.rules_file(docs[0], depth=2, cfn=False)
        names = sorted(set(_re.findall(r"^rule (\w+)", rules, _re.M)))
        if not names or "r.guard" in rules:
            continue
        dep = names[0]
        rules += ("let zv = %s\nrule zdep when %s {\nthis is_struct\n}\nrule zref {\n%s\n}\nrule znot {\nnot %s\n}\n"
                  "rule zvar {\n%%zv exists\n}\n") % (rng.choice(list(docs[0].keys()) or ["a"]) if docs[0] else "a", dep, dep, dep)
        allnames = names + ["zdep", "zref", "znot", "zvar"]
        specs = [{"name": "case%d" % k, "input": d,
                  "expectations": {"rules": ({} if rng.random() < 0.45 else {nm: rng.choice(["PASS", "FAIL", "SKIP"]) for nm in allnames if rng.random() < 0.8})}}
                 for k, d in enumerate(docs)]
        if i % 3 == 1:
            for sp in specs:          # cases without a name (the field is optional) ..
                del sp["name"]
        elif i % 3 == 2:
            for sp in specs:          # .. or sharing one
                sp["name"] = "smoke"
        sc = {"rules": rules, "specs": specs, "jobs": {}}
        for fmt in ("plain", "json", "yaml", "junit"):
            oargs = [] if fmt == "plain" else ["-o", fmt]
            sc["jobs"][(fmt, "all")] = len(jobs)
            jobs.append({"argv": ["test", "-r", "{DIR}/x.guard", "-t", "{DIR}/t.json"] + oargs, "files": {"x.guard": rules, "t.json": json.dumps(specs)}})
            if fmt in ("plain", "json"):
                for k, sp in enumerate(specs):
                    sc["jobs"][(fmt, k)] = len(jobs)
                    jobs.append({"argv": ["test", "-r", "{DIR}/x.guard", "-t", "{DIR}/t.json"] + oargs, "files": {"x.guard": rules, "t.json": json.dumps([sp])}})
        # the same cases in the reverse order
        sc["jobs"][("json", "rev")] = len(jobs)
        jobs.append({"argv": ["test", "-r", "{DIR}/x.guard", "-t", "{DIR}/t.json", "-o", "json"], "files": {"x.guard": rules, "t.json": json.dumps(specs[::-1])}})
        scen.append(sc)
    outs = vlib.run_cli_many(jobs)

    def cases_of(o):
        tj = json.loads(o["stdout"])
        if isinstance(tj, list):
            tj = tj[0]
        return [{"name": tc["name"],
                 "passed": sorted((base_rule_name(p["name"]), p["evaluated"]) for p in tc["passed_rules"]),
                 "failed": sorted((base_rule_name(f["name"]), f["expected"], tuple(f["evaluated"])) for f in tc["failed_rules"]),
                 "skipped": sorted(base_rule_name(x["name"]) for x in tc["skipped_rules"])} for tc in tj["test_cases"]]

    for sc in scen:
        res.evaluations += 1
        info = {"rules": sc["rules"], "specs": sc["specs"]}
        o_all = outs[sc["jobs"][("json", "all")]]
        singles = [outs[sc["jobs"][("json", k)]] for k in range(len(sc["specs"]))]
        if o_all["code"] not in (0, 7) or any(o["code"] not in (0, 7) for o in singles):
            res.stats["c12-test-error"] += 1
            if (o_all["code"] in (0, 7)) != all(o["code"] in (0, 7) for o in singles):
                res.judge_failures.append(dict(info, what="test file with all cases exits %s, the cases alone exit %s" % (o_all["code"], [o["code"] for o in singles]), **{"class": "c12-test-error"}))
            continue
        try:
            call = cases_of(o_all)
            cone = [cases_of(o)[0] for o in singles]
            crev = cases_of(outs[sc["jobs"][("json", "rev")]])
        except Exception as e:
            res.judge_failures.append(dict(info, what="test -o json output unreadable: %s" % e, **{"class": "c12-test-json"}))
            continue
        res.nontrivial.add(("test", vlib.sha(sc["rules"] + json.dumps(sc["specs"]))))
        res.stats["c12-test-cases:%d" % len(cone)] += 1
        if call != cone:
            k = next((j for j in range(min(len(call), len(cone))) if call[j] != cone[j]), None)
            res.judge_failures.append(dict(info, what="test case %s evaluated in a file with %d cases gives %s, alone %s" % (
                k, len(cone), call[k] if k is not None else len(call), cone[k] if k is not None else len(cone)), **{"class": "c12-test-case"}))
        if sorted(crev, key=lambda c: json.dumps(c, sort_keys=True)) != sorted(call, key=lambda c: json.dumps(c, sort_keys=True)):
            res.judge_failures.append(dict(info, what="the order of the test cases in the file changes a case's result", **{"class": "c12-test-order"}))
        want_exit = 7 if any(c["failed"] for c in cone) else 0
        for fmt in ("plain", "json", "yaml", "junit"):
            code = outs[sc["jobs"][(fmt, "all")]]["code"]
            if code != want_exit:
                res.judge_failures.append(dict(info, what="test (%s) on all cases exits %s; the cases alone imply %s" % (fmt, code, want_exit), **{"class": "c12-test-exit-" + fmt}))
        pcodes = [outs[sc["jobs"][("plain", k)]]["code"] for k in range(len(sc["specs"]))]
        if pcodes != [o["code"] for o in singles]:
            res.judge_failures.append(dict(info, what="plain and json exit codes of single cases differ: %s vs %s" % (pcodes, [o["code"] for o in singles]), **{"class": "c12-test-exit-single"}))
        # yaml carries the same per-case results as json
        try:
            ty = _yaml.safe_load(outs[sc["jobs"][("yaml", "all")]]["stdout"].replace("{DIR}", "DIR"))
            if isinstance(ty, list):
                ty = ty[0]
            cy = [{"name": tc["name"],
                   "passed": sorted((base_rule_name(p["name"]), p["evaluated"]) for p in tc["passed_rules"]),
                   "failed": sorted((base_rule_name(f["name"]), f["expected"], tuple(f["evaluated"])) for f in tc["failed_rules"]),
                   "skipped": sorted(base_rule_name(x["name"]) for x in tc["skipped_rules"])} for tc in ty["test_cases"]]
            if cy != cone:
                res.judge_failures.append(dict(info, what="test -o yaml on all cases differs from the cases alone", **{"class": "c12-test-yaml"}))
        except Exception as e:
            res.stats["c12-test-yaml-unreadable"] += 1


register("C12", ["Guard.Properties.C12"], run_C12, needs_cli=True)


# =============================================================================== C07

def partition_of_report(rep):
    return {"PASS": sorted(set(map(base_rule_name, rep["compliant"]))),
            "SKIP": sorted(set(map(base_rule_name, rep["not_applicable"]))),
            "FAIL": sorted({base_rule_name(c["Rule"]["name"]) for c in rep["not_compliant"] if "Rule" in c}),
            "status": rep["status"]}


def count_messages(c):
    if "Rule" in c:
        return sum(count_messages(x) for x in c["Rule"]["checks"])
    if "Disjunctions" in c:
        return sum(count_messages(x) for x in c["Disjunctions"]["checks"])
    return 1


def yaml11_eq(j, y):
    """equality of a JSON value and the same data re-read by PyYAML (YAML 1.1): exponent floats without
    a dot (`5e-324`) and a few keywords come back as strings there"""
    if isinstance(j, dict) and isinstance(y, dict):
        return set(map(str, j)) == set(map(str, y)) and all(yaml11_eq(v, y.get(k, y.get(str(k)))) for k, v in j.items())
    if isinstance(j, list) and isinstance(y, list):
        return len(j) == len(y) and all(yaml11_eq(a, b) for a, b in zip(j, y))
    if isinstance(j, float) and isinstance(y, str):
        try:
            return float(y) == j
        except ValueError:
            return False
    if isinstance(j, bool) or isinstance(y, bool):
        return j is y or (isinstance(j, str) and isinstance(y, bool) and j.lower() in ("true", "false", "yes", "no", "on", "off", "y", "n"))
    if isinstance(j, (int, float)) and isinstance(y, (int, float)):
        return j == y
    return j == y


def run_C07(ctx):
    res = Result("random rule files (distinct rule names) x documents with JSON-compatible scalars, rendered through the full "
                 "cross product: summary table (-S all|pass|fail|skip|none, -v, -p), -o json / yaml with and without "
                 "--structured, junit, sarif, stdin data, --payload, and the library call `run_checks`; the PASS/FAIL/SKIP "
                 "partition, the file status and the exit code must coincide, JSON/YAML/XML must be well formed and denote "
                 "the same data; documents as JSON, flow YAML and block YAML ending in a block scalar (optionally indented root), "
                 "and Terraform-plan shaped documents (root resource_changes) for plain -o json|yaml vs --structured; "
                 "non-trivial = row whose reference rendering evaluated")
    import yaml as _yaml
    import xml.etree.ElementTree as ET
    import re as _re
    n = 1200 if ctx.thorough() else 90
    rows = []
    jobs = []

    def add(job):
        jobs.append(job)
        return len(jobs) - 1
    for i in range(n):
        g = gen.G(ctx.seed * 1900037 + i)
        d = g.doc()
        rules = distinct_names_program(g, d, 1)[0]
        if len(set(_re.findall(r"^rule (\w+)", rules, _re.M))) != len(_re.findall(r"^rule (\w+)", rules, _re.M)):
            continue
        # a number in exponent notation (valid JSON, typed by every loader) and two rules that depend on its type
        d["xf"] = "@@XF@@"
        rules += "rule xf_is_float { xf is_float }\nrule xf_cmp { xf > 0.25 }\n"
        xf = g.ch(["1e3", "5E-1", "1e-05", "2.5e+2", "1E2", "7e0"])
        data = json.dumps(d).replace('"@@XF@@"', xf)
        if i % 2 == 1:
            # the same document as FLOW YAML (it starts with `{` like JSON does): every entry point must read it alike
            try:
                yt = _yaml.safe_dump(d, default_flow_style=True, width=10 ** 6, allow_unicode=True)
                if _yaml.safe_load(yt) == d:
                    data = yt.replace("'@@XF@@'", xf).replace('"@@XF@@"', xf).replace("@@XF@@", xf)
            except Exception:
                pass
        elif i % 4 == 2:
            # BLOCK YAML whose last value is a block scalar (its final line break belongs to the value), optionally with
            # the whole document indented: the text must reach the loader unchanged from a file, stdin and --payload
            try:
                yt = _yaml.safe_dump(d, default_flow_style=False, width=10 ** 6, allow_unicode=True)
                if _yaml.safe_load(yt) == d:
                    yt = yt.replace("'@@XF@@'", xf).replace('"@@XF@@"', xf).replace("@@XF@@", xf)
                    tail = ["zmotd: |\n  hello\n", "zmotd: |+\n  hello\n\n\n", "zmotd: >\n  hello\n", "zmotd: |\n  hello\n\n"][(i // 4) % 4]
                    yt += tail
                    if (i // 16) % 2 == 1:
                        yt = "".join("  " + ln if ln.strip() else ln for ln in yt.splitlines(True))
                    data = yt
                    rules += "rule zmotd_nl { zmotd == /hello\\n+$/ }\nrule zmotd_ne { zmotd != \"hello\" }\nrule zmotd_kept { zmotd == \"hello\\n\\n\\n\" }\n"
            except Exception:
                pass
        files = {"r.guard": rules, "d.json": data}
        base = ["validate", "-r", "{DIR}/r.guard", "-d", "{DIR}/d.json"]
        row = {"rules": rules, "data": data, "v": {}}
        if i % 5 == 3 and data.startswith("{"):
            # the same JSON document with a root `resource_changes` key (Terraform plan shape: another reporter takes over)
            dtf = '{"resource_changes": [], ' + data[1:]
            ftf = {"r.guard": rules, "d.json": dtf}
            row["tf"] = {k: add({"argv": base + e, "files": ftf}) for k, e in
                         (("o-json", ["-S", "all", "-o", "json"]), ("o-yaml", ["-S", "all", "-o", "yaml"]),
                          ("s-json", ["--structured", "-o", "json", "-S", "none"]))}
        if i % 3 == 0:
            # a second rules file that defines the SAME rule names: renderings must agree on the union
            r2 = distinct_names_program(gen.G(ctx.seed * 1900037 + i + 500000), d, 1)[0]
            # one rule name with a DIFFERENT outcome in each of the two files (PASS/SKIP, FAIL/SKIP, PASS/FAIL, SKIP/PASS ..)
            zo = [("xf exists", "when zz_nothere exists { xf exists }"), ("xf !exists", "when zz_nothere exists { xf exists }"),
                  ("xf exists", "{ xf !exists }"), ("when zz_nothere exists { xf exists }", "xf exists")][(i // 3) % 4]
            mk = lambda b: ("rule zshared %s\n" % b) if b.startswith(("when", "{")) else ("rule zshared { %s }\n" % b)
            rules_a, r2 = rules + mk(zo[0]), r2 + mk(zo[1])
            if len(set(_re.findall(r"^rule (\w+)", r2, _re.M))) == len(_re.findall(r"^rule (\w+)", r2, _re.M)):
                files = dict(files, **{"r.guard": rules_a})
                rules = rules_a
                row["rules"] = rules
                f2 = dict(files, **{"r2.guard": r2})
                b2 = ["validate", "-r", "{DIR}/r.guard", "-r", "{DIR}/r2.guard", "-d", "{DIR}/d.json"]
                row["two"] = {"S-all": add({"argv": b2 + ["-S", "all"], "files": f2}),
                              "payload-plain": add({"argv": ["validate", "--payload", "-S", "all"], "files": {},
                                                    "stdin": json.dumps({"rules": [rules, r2], "data": [data]})}),
                              "payload-plain-rev": add({"argv": ["validate", "--payload", "-S", "all"], "files": {},
                                                        "stdin": json.dumps({"rules": [r2, rules], "data": [data]})}),
                              "s-json": add({"argv": b2 + ["--structured", "-o", "json", "-S", "none"], "files": f2}),
                              "s-yaml": add({"argv": b2 + ["--structured", "-o", "yaml", "-S", "none"], "files": f2}),
                              "payload-json": add({"argv": ["validate", "--payload", "--structured", "-o", "json", "-S", "none"], "files": {},
                                                   "stdin": json.dumps({"rules": [rules, r2], "data": [data]})})}
                row["rules2"] = r2
        for key, extra in [("S-all", ["-S", "all"]), ("default", []), ("S-none", ["-S", "none"]), ("S-pass", ["-S", "pass"]),
                           ("S-fail", ["-S", "fail"]), ("S-skip", ["-S", "skip"]), ("verbose", ["-S", "all", "-v"]),
                           ("print-json", ["-S", "all", "-p"]), ("o-json", ["-S", "all", "-o", "json"]),
                           ("o-yaml", ["-S", "all", "-o", "yaml"]),
                           ("s-json", ["--structured", "-o", "json", "-S", "none"]),
                           ("s-yaml", ["--structured", "-o", "yaml", "-S", "none"]),
                           ("s-junit", ["--structured", "-o", "junit", "-S", "none"]),
                           ("s-sarif", ["--structured", "-o", "sarif", "-S", "none"])]:
            row["v"][key] = add({"argv": base + extra, "files": files})
        row["v"]["stdin"] = add({"argv": ["validate", "-r", "{DIR}/r.guard", "-S", "all"], "files": files, "stdin": data})
        row["v"]["payload"] = add({"argv": ["validate", "--payload", "-S", "all"], "files": {}, "stdin": json.dumps({"rules": [rules], "data": [data]})})
        row["v"]["payload-json"] = add({"argv": ["validate", "--payload", "--structured", "-o", "json", "-S", "none"], "files": {},
                                        "stdin": json.dumps({"rules": [rules], "data": [data]})})
        rows.append(row)
    outs = vlib.run_cli_many(jobs)
    lib = ctx.hp.map([{"id": i, "op": "case", "rules": r["rules"], "data": r["data"], "report": True} for i, r in enumerate(rows)])

    def table(stdout):
        part = {"PASS": [], "FAIL": [], "SKIP": []}
        for nm, st in _re.findall(r"^\S+?/(\S+)\s+(PASS|FAIL|SKIP)$", stdout, _re.M):
            part[st].append(nm)
        m = _re.search(r"Status = (PASS|FAIL|SKIP)", stdout)
        return {k: sorted(set(v)) for k, v in part.items()}, (m.group(1) if m else None)

    for ri, row in enumerate(rows):
        res.evaluations += 1
        o = {k: outs[j] for k, j in row["v"].items()}
        info = {"rules": row["rules"], "data": row["data"]}
        ref = o["s-json"]
        if ref["code"] not in (0, 19):
            res.stats["c07-row-error:%s" % ref["code"]] += 1
            codes = {k: v["code"] for k, v in o.items()}
            if any(c in (0, 19) for c in codes.values()) and not all(c in (0, 19) for c in codes.values()):
                # an evaluation error must be an error in every rendering
                if ref["code"] == 255:
                    res.judge_failures.append(dict(info, what="evaluation error in structured mode but not in %s" % sorted(k for k, c in codes.items() if c in (0, 19)), **{"class": "c07-error"}))
            continue
        try:
            rep = json.loads(ref["stdout"])[0]
        except Exception as e:
            res.judge_failures.append(dict(info, what="--structured -o json is not well-formed JSON: %s" % e, **{"class": "c07-json"}))
            continue
        P = partition_of_report(rep)
        res.nontrivial.add(ri)
        bad = []
        want_exit = 19 if P["status"] == "FAIL" else 0
        for k, v in o.items():
            if v["code"] != want_exit:
                bad.append("exit code %s under `%s`, %s expected from file status %s" % (v["code"], k, want_exit, P["status"]))
        # summary tables
        for k in ("S-all", "verbose", "print-json", "o-json", "o-yaml", "stdin", "payload"):
            part, st = table(o[k]["stdout"])
            if {x: part[x] for x in ("PASS", "FAIL", "SKIP")} != {x: P[x] for x in ("PASS", "FAIL", "SKIP")} or st != P["status"]:
                bad.append("summary table under `%s` gives %s / %s, structured report %s" % (k, part, st, P))
        for k, sel in (("S-pass", "PASS"), ("S-fail", "FAIL"), ("S-skip", "SKIP"), ("default", "FAIL")):
            part, st = table(o[k]["stdout"])
            if part[sel] != P[sel] or any(part[x] for x in part if x != sel):
                bad.append("summary table under `%s` shows %s, expected only %s = %s" % (k, part, sel, P[sel]))
        if o["S-none"]["stdout"].strip():
            bad.append("-S none printed something: %r" % o["S-none"]["stdout"][:100])
        # non-structured -o json / -o yaml print the report document after the table
        try:
            js = o["o-json"]["stdout"]
            doc = json.loads(js[js.index("\n{"):])
            if partition_of_report(doc) != P:
                bad.append("-o json document disagrees with --structured: %s vs %s" % (partition_of_report(doc), P))
        except Exception as e:
            bad.append("-o json did not contain a JSON document: %s" % e)
        try:
            ys = o["o-yaml"]["stdout"]
            docy = _yaml.safe_load(ys[ys.index("\nname:"):].replace("{DIR}", "DIR"))
            if partition_of_report(docy) != P:
                bad.append("-o yaml document disagrees: %s vs %s" % (partition_of_report(docy), P))
        except Exception as e:
            bad.append("-o yaml did not contain a YAML document: %s" % e)
        # structured yaml denotes the same data as structured json
        try:
            sy = _yaml.safe_load(o["s-yaml"]["stdout"].replace("{DIR}", "DIR"))
            sj = json.loads(ref["stdout"].replace("{DIR}", "DIR"))
            if not yaml11_eq(sj, sy):
                bad.append("structured YAML and JSON denote different data")
        except Exception as e:
            bad.append("structured YAML unreadable: %s" % e)
        # payload structured
        try:
            pj = json.loads(o["payload-json"]["stdout"])[0]
            if partition_of_report(pj) != P:
                bad.append("--payload --structured disagrees: %s vs %s" % (partition_of_report(pj), P))
        except Exception as e:
            bad.append("--payload --structured output unreadable: %s" % e)
        # junit
        try:
            root = ET.fromstring(o["s-junit"]["stdout"])
            tcs = list(root.iter("testcase"))
            if len(tcs) != 1:
                bad.append("JUnit: %d test cases for one (data, rules) pair" % len(tcs))
            else:
                t = tcs[0]
                mark = "FAIL" if t.find("failure") is not None else ("ERROR" if t.find("error") is not None else ("SKIP" if (t.find("skipped") is not None or t.get("status") == "skip") else "PASS"))
                if mark != P["status"]:
                    bad.append("JUnit marks the case %s, file status is %s" % (mark, P["status"]))
        except ET.ParseError as e:
            bad.append("JUnit output is not well-formed XML: %s" % e)
        # sarif: one result per reported failing check
        try:
            sar = json.loads(o["s-sarif"]["stdout"])
            nres = sum(len(r["results"]) for r in sar["runs"])
            want = sum(count_messages(c) for c in rep["not_compliant"]) if rep["status"] == "FAIL" else 0
            if nres != want:
                bad.append("SARIF has %d results, the report lists %d failing checks" % (nres, want))
        except Exception as e:
            bad.append("SARIF output is not well-formed JSON: %s" % e)
        # library entry point
        lr = lib[ri].get("report", {})
        if "ok" in lr:
            if partition_of_report(lr["ok"]) != P:
                bad.append("run_checks (library) disagrees: %s vs %s" % (partition_of_report(lr["ok"]), P))
        elif "ok_text" not in lr:
            bad.append("run_checks (library) did not evaluate: %s" % {k: v for k, v in lr.items() if k != "ok"})
        # two rules files sharing rule names: summary tables vs structured report vs payload, as unions per status
        if "two" in row:
            t2 = {k: outs[j] for k, j in row["two"].items()}
            # (with a parse error the plain fold keeps the LAST non-zero code, the structured one 19 over 5: C06's domain)
            if all(v["code"] in (0, 19) for v in t2.values()) and len({v["code"] for v in t2.values()}) != 1:
                bad.append("two rules files: exit codes differ between renderings / entry points: %s" % {k: v["code"] for k, v in t2.items()})
            if all(v["code"] in (0, 19) for v in t2.values()):
                res.stats["two-rules-files-sharing-names"] += 1
                part, _ = table(t2["S-all"]["stdout"])
                try:
                    pj2 = partition_of_report(json.loads(t2["s-json"]["stdout"])[0])
                    py2 = partition_of_report(_yaml.safe_load(t2["s-yaml"]["stdout"].replace("{DIR}", "DIR"))[0])
                    pp2 = partition_of_report(json.loads(t2["payload-json"]["stdout"])[0])
                    for nm, pv in (("--structured -o json", pj2), ("--structured -o yaml", py2), ("--payload --structured", pp2)):
                        if {x: pv[x] for x in ("PASS", "FAIL", "SKIP")} != {x: part[x] for x in ("PASS", "FAIL", "SKIP")}:
                            bad.append("two rules files sharing rule names: summary tables give %s, %s gives %s" % (part, nm, pv))
                except Exception as e:
                    bad.append("two rules files: structured output unreadable: %s" % e)
        if "tf" in row:
            tf = {k: outs[j] for k, j in row["tf"].items()}
            if tf["s-json"]["code"] in (0, 19):
                res.stats["tf-shaped-rows"] += 1
                try:
                    Pt = partition_of_report(json.loads(tf["s-json"]["stdout"])[0])
                    res.stats["tf-shaped-rows-status-%s" % Pt["status"]] += 1
                    for k in ("o-json", "o-yaml"):
                        if tf[k]["code"] != tf["s-json"]["code"]:
                            bad.append("tf-shaped document: exit code %s under `%s`, %s under --structured" % (tf[k]["code"], k, tf["s-json"]["code"]))
                        part, st = table(tf[k]["stdout"])
                        if {x: part[x] for x in ("PASS", "FAIL", "SKIP")} != {x: Pt[x] for x in ("PASS", "FAIL", "SKIP")}:
                            bad.append("tf-shaped document: summary table under `%s` gives %s, structured report %s" % (k, part, Pt))
                    try:
                        js = tf["o-json"]["stdout"]
                        if partition_of_report(json.loads(js[js.index("\n{"):])) != Pt:
                            bad.append("tf-shaped document: -o json document disagrees with --structured")
                    except Exception as e:
                        bad.append("tf-shaped document: -o json did not contain a JSON report document: %s" % e)
                    try:
                        ys = tf["o-yaml"]["stdout"]
                        if partition_of_report(_yaml.safe_load(ys[ys.index("\nname:"):].replace("{DIR}", "DIR"))) != Pt:
                            bad.append("tf-shaped document: -o yaml document disagrees with --structured")
                    except Exception as e:
                        bad.append("tf-shaped document: -o yaml did not contain a YAML report document: %s" % e)
                except Exception as e:
                    bad.append("tf-shaped document: --structured -o json unreadable: %s" % e)
        for b in bad:
            res.judge_failures.append(dict(info, what="rendering/entry point changes the verdict: " + b, rules2=row.get("rules2"), **{"class": "c07-" + b.split(" ")[0].strip("-:").lower()}))
        if ri < 2:
            res.add_sample({"rules": row["rules"][:300], "data": row["data"], "partition": P, "exit": want_exit})
    return res


register("C07", ["Guard.Properties.C07"], run_C07, needs_cli=True)


# =============================================================================== C18

def rust_float_str(f):
    """Rust's `{}` for f64: shortest round-trip digits in positional notation, no trailing `.0`"""
    import decimal
    if f != f:
        return "NaN"
    if f in (float("inf"), float("-inf")):
        return "inf" if f > 0 else "-inf"
    d = decimal.Decimal(repr(f))
    s = format(d, "f")
    if "." in s:
        s = s.rstrip("0").rstrip(".")
    if s in ("-0", ""):
        s = "-0" if str(f).startswith("-") else "0"
    return s


def ref_function(name, args, raw_args):
    """independent reference: list of result values (Python), or ('err',) ; `args` = resolved values of arg 0"""
    import re as _re, urllib.parse, datetime
    def is_str(v):
        return isinstance(v, str)
    if name == "count":
        return [len(args)]
    if name in ("to_upper", "to_lower"):
        return [(v.upper() if name == "to_upper" else v.lower()) for v in args if is_str(v)]
    if name == "url_decode":
        out = []
        for v in args:
            if is_str(v):
                try:
                    out.append(urllib.parse.unquote(v, errors="strict"))
                except UnicodeDecodeError:
                    pass
        return out
    if name == "substring":
        i, j = raw_args[1], raw_args[2]
        out = []
        if any(is_str(v) and any(ord(c) >= 128 for c in v) for v in args):
            return ("maybe-err",)      # the statement defines substring on ASCII strings only (offsets are byte offsets)
        for v in args:
            if is_str(v) and all(ord(c) < 128 for c in v) and 0 <= i < j <= len(v):
                out.append(v[i:j])
        return out
    if name == "join":
        d = raw_args[1]
        if any(not is_str(v) for v in args) or raw_args[3]:
            return ("err",)
        return [d.join(args)]
    if name == "json_parse":
        out = []
        for v in args:
            if is_str(v):
                try:
                    x = json.loads(v)
                    if isinstance(x, int) and not -2 ** 63 <= x < 2 ** 63:
                        return ("maybe-err",)      # beyond i64: outside the property's domain (loaders wrap)
                    out.append(x)
                except ValueError:
                    return ("maybe-err",)
        return out
    if name == "parse_int":
        out = []
        for v in args:
            if isinstance(v, bool):
                continue
            if is_str(v):
                if _re.fullmatch(r"[+-]?[0-9]+", v) and -2 ** 63 <= int(v) < 2 ** 63:
                    out.append(int(v))
                else:
                    return ("err",)
            elif isinstance(v, int):
                out.append(v)
            elif isinstance(v, float):
                t = int(v) if abs(v) < 1e300 else (2 ** 63 - 1 if v > 0 else -2 ** 63)
                out.append(max(-2 ** 63, min(2 ** 63 - 1, t)))
        return out
    if name == "parse_float":
        out = []
        for v in args:
            if isinstance(v, bool):
                continue
            if is_str(v):
                if _re.fullmatch(r"[+-]?([0-9]+\.?[0-9]*|\.[0-9]+)([eE][+-]?[0-9]+)?", v):
                    out.append(float(v))
                else:
                    return ("err",) if not _re.fullmatch(r"[+-]?(inf|infinity|nan)", v, _re.I) else ("maybe-err",)
            elif isinstance(v, (int, float)):
                out.append(float(v))
        return out
    if name == "parse_string":
        out = []
        for v in args:
            if isinstance(v, bool):
                out.append("true" if v else "false")
            elif isinstance(v, int):
                out.append(str(v))
            elif isinstance(v, float):
                out.append(rust_float_str(v))
            elif is_str(v):
                out.append(v)
        return out
    if name == "parse_boolean":
        out = []
        for v in args:
            if isinstance(v, bool):
                out.append(v)
            elif is_str(v):
                if v.lower() in ("true", "false"):
                    out.append(v.lower() == "true")
                else:
                    return ("err",)
        return out
    if name == "parse_char":
        out = []
        for v in args:
            if isinstance(v, bool):
                continue
            if isinstance(v, int):
                if 0 <= v <= 9:
                    out.append(str(v))
                else:
                    return ("err",)
            elif is_str(v):
                if len(v.encode("utf-8")) > 1:
                    return ("err",)
                if v:
                    out.append(v)
        return out
    if name == "parse_epoch":
        out = []
        for v in args:
            if is_str(v):
                try:
                    if not _re.fullmatch(r"\d{4}-\d\d-\d\d[Tt ]\d\d:\d\d:\d\d(\.\d+)?([Zz]|[+-]\d\d:\d\d)", v):
                        return ("err",)
                    dt = datetime.datetime.fromisoformat(v.replace("Z", "+00:00").replace("z", "+00:00").replace("t", "T"))
                    out.append(int(dt.timestamp()) if dt.timestamp() >= 0 or dt.microsecond == 0 else int(dt.timestamp()) - 1)
                except ValueError:
                    return ("err",)
        return out
    if name == "regex_replace":
        rx, rep = raw_args[1], raw_args[2]
        out = []
        for v in args:
            if is_str(v):
                acc = ""
                tmpl = _re.sub(r"\$\{(\d+)\}", r"\\g<\1>", rep)
                for m in _re.finditer(rx, v):
                    acc += m.expand(tmpl)
                out.append(acc)
        return out
    return None


C18_DOC = {"s": ["abc", "Hello World", "", "10", "-7", "x%20y%2Fz", "true", "FALSE", "1.5", "2019-01-01T00:00:00Z",
                 "arn:aws:s3", "a", "bb", "{\"k\": [1, 2, {\"z\": null}]}", "[1, \"a\"]", "9223372036854775808", "é", "1e3"],
           "n": [0, 1, -5, 42, 9223372036854775807], "f": [1.5, 10.0, -2.5, 1e21, 5e-324], "b": [True, False], "z": None,
           "m": {"a": "x", "b": "y"}, "mixed": ["a", 1, True, None, "b", [1], {"q": 1}], "one": "abcdef", "e": [],
           "json": "{\"a\": [1, 2.5, \"s\", true, null], \"b\": {\"c\": \"d\"}}", "ints": ["1", "2", "30"], "strs": ["a", "b", "c"],
           # lists whose members are empty or end / start with a delimiter (joins must keep them)
           "tails": ["a", "b", ""], "delims": ["x", "y,", ",z"], "empties": ["", ""], "dashes": ["-", "a-", " | ", "--"], "single": [""],
           # `+` is not an escape in percent-encoding; integers that only differ from a digit by a multiple of 2^32
           "plus": ["a+b%20c", "+", "1+1", "%2B+"], "wide": [4294967301, 8589934592, -4294967293, 4294967296, 4294967305], "digits": [0, 5, 9]}


C18_LITS = {"lvs": "abc", "lvl": ["a", "b", ""], "lvi": 5, "lvb": True}
C18_LETS = 'let lvs = "abc"\nlet lvl = ["a", "b", ""]\nlet lvi = 5\nlet lvb = true\n'


def c18_cases(ctx, rng):
    fs = ["count", "to_upper", "to_lower", "url_decode", "substring", "join", "json_parse", "parse_int", "parse_float",
          "parse_string", "parse_boolean", "parse_epoch", "regex_replace", "parse_char"]
    queries = ["s[*]", "n[*]", "f[*]", "b[*]", "mixed[*]", "one", "strs[*]", "ints[*]", "json", "zz", "s[*].zz", "e[*]", "m.*",
               "mixed", "z", "s[0]", "s[3]", "s[4]", "s[5]", "s[6]", "s[7]", "s[8]", "s[9]", "s[15]", "s[16]", "s[17]", "some s[*].zz",
               "tails[*]", "delims[*]", "empties[*]", "dashes[*]", "single[*]", "plus[*]", "wide[*]", "digits[*]", "wide[0]", "wide[2]", "n[0]", "n[1]",
               "s[11]", "s[2]",
               # variables bound to literals (their values are `Literal` query results)
               "%lvs", "%lvl", "%lvi", "%lvb"]
    cases = []
    per = 6 if ctx.thorough() else 2
    for f in fs:
        for q in queries:
            for _ in range(per if f in ("substring", "join", "regex_replace") else 1):
                raw = [q]
                if f == "substring":
                    i, j = rng.choice([0, 0, 1, 2, 5, 65536]), rng.choice([1, 2, 3, 6, 70000, 65539])
                    call = "substring(%s, %d, %d)" % (q, i, j)
                    raw = [q, i, j]
                elif f == "join":
                    d = rng.choice([",", "", "-", " | "])
                    call = "join(%s, \"%s\")" % (q, d)
                    raw = [q, d, None, False]
                elif f == "regex_replace":
                    rx, rep = rng.choice([("^(a)(.*)$", "${2}-${1}"), ("(b+)", "<${1}>"), ("^arn:(\\w+):(\\w+)", "${2}/${1}"), ("x", "y")])
                    call = "regex_replace(%s, \"%s\", \"%s\")" % (q, rx, rep)
                    raw = [q, rx, rep]
                else:
                    call = "%s(%s)" % (f, q)
                for form in ("let-rule", "let-file", "inline-rhs") if _ == 0 else ("let-rule",):
                    if form == "let-rule":
                        rules = C18_LETS + "rule t {\nlet r = %s\n%%r == \"__never__\"\n}\n" % call
                    elif form == "let-file":
                        rules = C18_LETS + "let r = %s\nrule t {\n%%r == \"__never__\"\n}\n" % call
                    else:
                        rules = C18_LETS + "rule t {\nprobe == %s\n}\n" % call
                    cases.append({"rules": rules, "data": json.dumps(dict(C18_DOC, probe="__never__")), "f": f, "q": q, "raw": raw, "form": form})
    # composites
    for n_ in [0, 1, -5, 42, 9223372036854775807, -9223372036854775808]:
        cases.append({"rules": "rule t {\nlet a = parse_string(v)\nlet r = parse_int(%a)\n%r == \"__never__\"\n}\n",
                      "data": json.dumps({"v": n_}), "f": "roundtrip-int", "q": "v", "raw": [n_], "form": "composite"})
    for dval in [{"a": [1, 2.5, "s", True, None], "b": {"c": "d"}}, [1, [2, [3]]], {"k": ""}, []]:
        cases.append({"rules": "rule t {\nlet r = json_parse(text)\n%r == orig\n}\n",
                      "data": json.dumps({"text": json.dumps(dval), "orig": dval}), "f": "roundtrip-json", "q": "text", "raw": [dval], "form": "composite"})
    return cases


def resolve_ref_query(q, doc):
    """resolved values of the (simple) argument queries used above; (values, has_unresolved)"""
    some = q.startswith("some ")
    if some:
        q = q[5:]
    import re as _re
    cur, unres = [doc], False
    if q.startswith("%"):
        # a variable bound to a literal (C18_LETS): one value, the literal
        m = _re.match(r"%(\w+)", q)
        cur, q = [C18_LITS[m.group(1)]], q[m.end():]
    for part in _re.findall(r"[A-Za-z]+|\[\*\]|\[\d+\]|\*", q):
        nxt = []
        for v in cur:
            if part == "[*]":
                if isinstance(v, list):
                    if not v:
                        unres = True
                    nxt += v
                else:
                    nxt.append(v)
            elif part == "*":
                if isinstance(v, dict):
                    nxt += list(v.values())
                elif isinstance(v, list):
                    nxt += v
                else:
                    nxt.append(v)
            elif part.startswith("["):
                i = int(part[1:-1])
                if isinstance(v, list) and i < len(v):
                    nxt.append(v[i])
                else:
                    unres = True
            else:
                if isinstance(v, dict) and part in v:
                    nxt.append(v[part])
                else:
                    unres = True
        cur = nxt
    return cur, unres        # `some` on a function ARGUMENT does not drop unresolved members (only `let v = some q` does)


def failing_from_values(tree, acc):
    cont = tree["container"]
    if isinstance(cont, dict) and "ClauseValueCheck" in cont and isinstance(cont["ClauseValueCheck"], dict):
        (variant, body), = cont["ClauseValueCheck"].items()
        if variant in ("Comparison", "InComparison"):
            fr = body["from"]
            if "Resolved" in fr:
                acc.append(fr["Resolved"]["value"])
            elif "UnResolved" in fr:
                acc.append(("unresolved",))
    for c in tree["children"]:
        failing_from_values(c, acc)


def run_C18(ctx):
    res = Result("every function x argument queries over a document of unicode / numeric / boolean / mixed-type / empty / "
                 "unresolved members x argument forms (let at rule and file level, inline right-hand side) + the composites "
                 "parse_int(parse_string(n)) and json_parse(JSON text of D) == D; the values the implementation computes are "
                 "read from its record tree and compared with an independent Python reference, and the whole evaluation with "
                 "the Lean model; non-trivial = distinct (function, query, arguments, form)")
    rng = random.Random(ctx.seed)
    cases = c18_cases(ctx, rng)
    results = vlib.correspond(cases, ctx.hp, ctx.mp)
    absorb(res, results, "C18 function stream")
    res.nontrivial = set()
    raw = ctx.hp.map([{"id": i, "op": "case", "rules": c["rules"], "data": c["data"]} for i, c in enumerate(cases)])
    for c, r, rw in zip(cases, results, raw):
        res.stats["c18-fn:" + c["f"]] += 1
        res.nontrivial.add((c["f"], c["q"], json.dumps(c["raw"]), c["form"]))
        v = rw.get("verbose", {})
        info = {"rules": c["rules"], "data": c["data"]}
        if c["f"] == "roundtrip-int":
            acc = []
            if "ok" in v:
                failing_from_values(v["ok"], acc)
            if acc != [c["raw"][0]]:
                res.judge_failures.append(dict(info, what="parse_int(parse_string(%s)) gave %s" % (c["raw"][0], acc if "ok" in v else v), **{"class": "c18-roundtrip"}))
            continue
        if c["f"] == "roundtrip-json":
            st = r["impl"].get("rules")
            if st != [["t", "PASS"]]:
                res.judge_failures.append(dict(info, what="json_parse(JSON text of D) == D is %s" % (st or r["impl"]), **{"class": "c18-roundtrip"}))
            continue
        if c["form"] == "inline-rhs":
            continue            # tie only (the values sit on the right-hand side)
        args, unres = resolve_ref_query(c["q"], C18_DOC)
        rawargs = list(c["raw"])
        if c["f"] == "join":
            rawargs[3] = unres
        exp = ref_function(c["f"], args, rawargs)
        if exp is None or exp == ("maybe-err",):
            continue
        if exp == ("err",):
            if "err" not in v:
                res.judge_failures.append(dict(info, what="%s on %s must raise an error, got %s" % (c["f"], c["q"], str(v)[:200]), **{"class": "c18-error-expected"}))
            continue
        if "ok" not in v:
            res.judge_failures.append(dict(info, what="%s on %s raised %s, reference gives %s" % (c["f"], c["q"], {k: x for k, x in v.items() if k != "ok"}, exp), **{"class": "c18-spurious-error"}))
            continue
        acc = []
        failing_from_values(v["ok"], acc)

        def same(a, b):
            if isinstance(a, float) or isinstance(b, float):
                return isinstance(a, (int, float)) and isinstance(b, (int, float)) and not isinstance(a, bool) and not isinstance(b, bool) and float(a) == float(b)
            return type(a) == type(b) and a == b
        if len(acc) != len(exp) or not all(same(a, b) for a, b in zip(acc, exp)):
            res.judge_failures.append(dict(info, what="%s(%s): implementation %s, reference %s" % (c["f"], ", ".join(map(str, c["raw"])), acc, exp), **{"class": "c18-value"}))
        elif len(res.samples) < 5:
            res.add_sample({"call": "%s(%s)" % (c["f"], ", ".join(map(str, c["raw"]))), "values": acc})
    return res


register("C18", ["Guard.Properties.C18"], run_C18)


# =============================================================================== C11

def strip_loc(t):
    """typed value without line/column (they differ between loaders by design)"""
    if isinstance(t, dict):
        out = {}
        for k, v in t.items():
            if k == "p":
                out["p"] = v[0]
            elif k in ("s", "keys"):
                continue          # printed float / the key entries' own paths (loaders attach different ones)
            else:
                out[k] = strip_loc(v)
        return out
    if isinstance(t, list):
        return [strip_loc(x) for x in t]
    return t


def c11_doc(g):
    d = g.doc(depth=3)
    extra = {"digits": "0123", "kw": g.ch(["true", "null", "~", "yes", "no", "on", "1e3", "0x1F", ".5", "-", "", " lead", "a: b", "#c", "é ü", "x\0y", "\0"]),
             "i": g.ch([0, -1, 10 ** 15, 9223372036854775807, -9223372036854775808]), "f": g.ch([0.5, 1e308, 5e-324, -2.5, 10.0, 1e21])}
    for k in g.r.sample(list(extra), g.ch([1, 2, 3])):
        d[k] = extra[k]
    # "finite floats": any bit pattern, so that long mantissas and extreme exponents occur
    import struct as _st
    for j in range(g.ch([0, 1, 2])):
        f = _st.unpack("<d", _st.pack("<Q", g.r.getrandbits(64)))[0]
        if f == f and abs(f) != float("inf"):
            d["rf%d" % j] = f
    if g.p(0.3):
        d["ri"] = g.r.randrange(-2 ** 63, 2 ** 63)
    return d


def yaml12_dumper(rng):
    """PyYAML dumper for YAML-1.2 readers: every string that is not a plain word is QUOTED (PyYAML is a 1.1
    emitter and would leave e.g. `1e3` or `0x1F` plain, which 1.2 / Rust read as numbers)"""
    import yaml as _yaml
    import re as _re

    class D(_yaml.SafeDumper):
        pass

    def rep_str(dumper, s):
        plain_ok = _re.fullmatch(r"[A-Za-z][A-Za-z ]*[A-Za-z]|[A-Za-z]", s) and s.lower() not in (
            "true", "false", "null", "yes", "no", "on", "off", "y", "n", "inf", "nan", "infinity")
        styles = ["'", '"']
        if s and s == s.strip() and all(ord(c) >= 32 for c in s):
            styles += ["|", ">"]          # literal / folded block scalars are strings too, whatever they spell
        style = None if (plain_ok and rng.random() < 0.6) else rng.choice(styles)
        return dumper.represent_scalar("tag:yaml.org,2002:str", s, style=style)
    D.add_representer(str, rep_str)
    return D


def run_C11(ctx):
    res = Result("generated documents (unicode, digits-only, empty, keyword-looking strings; i64 boundary ints; finite floats) "
                 "x {JSON compact, JSON pretty, YAML flow, YAML block with random quoting style and indent} x loaders {validate "
                 "(libyaml), test (serde_yaml), run_checks (serde_json then serde_yaml)}: typed values (hook) must coincide; "
                 "the document must equal itself written as a Guard literal; every short-form tag x {scalar, sequence} "
                 "payload vs its long form under both loaders; malformed texts and non-string keys must be rejected; strings "
                 "containing U+0000; the `validate` COMMAND on block YAML ending in a block scalar (|, |+, >, |-; indented root) "
                 "against the JSON form; non-trivial = distinct (document, serialisation, loader) that loaded")
    import yaml as _yaml
    import re as _re0
    n = 3000 if ctx.thorough() else 300
    reqs, meta = [], []
    docs = []
    for i in range(n):
        g = gen.G(ctx.seed * 2300017 + i)
        d = c11_doc(g)
        docs.append(d)
        sers = {
            "json-compact": json.dumps(d, separators=(",", ":"), ensure_ascii=False),
            "json-pretty": json.dumps(d, indent=g.ch([1, 2, 4]), ensure_ascii=g.p(0.5)),
            "yaml-flow": _yaml.dump(d, Dumper=yaml12_dumper(g.r), default_flow_style=True, sort_keys=False, allow_unicode=True, width=10 ** 6),
            "yaml-block": _yaml.dump(d, Dumper=yaml12_dumper(g.r), default_flow_style=False, sort_keys=False, allow_unicode=g.p(0.7), indent=g.ch([2, 4]), width=g.ch([40, 10 ** 6])),
        }
        for sname, text in sers.items():
            for loader in ("libyaml", "serde_yaml", "run_checks") + (("serde_json",) if sname.startswith("json") else ()):
                reqs.append({"id": len(reqs), "op": "data", "data": text, "loader": loader})
                meta.append((i, sname, loader, text))
    resp = ctx.hp.map(reqs)
    ref = {}
    for (i, sname, loader, text), r in zip(meta, resp):
        if sname == "json-compact" and loader == "serde_json" and "ok" in r:
            ref[i] = strip_loc(r["ok"])
    for (i, sname, loader, text), r in zip(meta, resp):
        res.evaluations += 1
        res.stats["c11-load:%s/%s" % (sname, loader)] += 1
        if "ok" not in r:
            res.judge_failures.append({"what": "a well-formed document was rejected by %s as %s: %s" % (loader, sname, {k: v for k, v in r.items() if k != "id"}),
                                       "class": "c11-rejected", "data": text, "loader": loader})
            continue
        res.nontrivial.add((i, sname, loader))
        got = strip_loc(r["ok"])
        if i in ref and got != ref[i]:
            res.judge_failures.append({"what": "loader %s reads the %s serialisation differently from the JSON reading" % (loader, sname),
                                       "class": "c11-typing", "data": text, "loader": loader, "got": got, "want": ref[i], "json": json.dumps(docs[i])})
    # a document equals itself written as a Guard literal (correspondence with the model as well)
    cases = []
    spell = []      # (index of the JSON case, index of the same document in another serialisation, serialisation)
    for di, d in enumerate(docs[: (1500 if ctx.thorough() else 150)]):
        lt = lit_text(d)
        if lt is not None:
            rules_ = "rule same { this == %s }\n" % lt
            bi = len(cases)
            cases.append({"rules": rules_, "data": json.dumps(d)})
            # the same comparison through the REAL entry point (run_checks) for every serialisation of the document:
            # the hooks above read typed values through the loaders, this goes through the library's own choice of loader
            for (i2, sname, loader, text) in meta:
                if i2 == di and loader == "run_checks" and sname != "json-compact":
                    spell.append((bi, len(cases), sname))
                    cases.append({"rules": rules_, "data": text})
    results = vlib.correspond(cases, ctx.hp, ctx.mp)
    absorb(res, results, "C11 literal round trip")
    for bi, k, sname in spell:
        a, b = results[bi]["impl"], results[k]["impl"]
        res.stats["c11-entry-point:" + sname] += 1
        if (a.get("kind"), a.get("rules"), a.get("err")) != (b.get("kind"), b.get("rules"), b.get("err")):
            res.judge_failures.append({"what": "run_checks gives %s for the document as JSON and %s for the same document as %s" % (
                                           {k_: a.get(k_) for k_ in ("kind", "rules", "err")}, {k_: b.get(k_) for k_ in ("kind", "rules", "err")}, sname),
                                       "class": "c11-entry-point", "rules": results[k]["case"]["rules"], "data": results[k]["case"]["data"]})
    for r in results:
        if r["impl"].get("kind") == "ok" and r["impl"]["rules"] != [["same", "PASS"]]:
            res.judge_failures.append({"what": "a document does not equal itself written as a Guard value literal: %s" % r["impl"]["rules"],
                                       "class": "c11-literal", "rules": r["case"]["rules"], "data": r["case"]["data"]})
        elif r["impl"].get("kind") == "err" and r["impl"].get("err") != "ParseError":
            res.judge_failures.append({"what": "comparing a document with its own literal raised %s" % r["impl"].get("err"),
                                       "class": "c11-literal", "rules": r["case"]["rules"], "data": r["case"]["data"]})
    # the `validate` command itself (its own reading of the data file) on block YAML whose last node is a block scalar, with
    # the root mapping optionally indented, against the JSON form of the same document and against run_checks
    vjobs, vmeta = [], []
    for di, d in enumerate(docs[: (600 if ctx.thorough() else 120)]):
        k0 = next((k for k in d if _re0.fullmatch(r"[A-Za-z][A-Za-z0-9]*", k)), None)
        blk = next((t for (i2, sn, ld, t) in meta if i2 == di and sn == "yaml-block" and ld == "libyaml"), None)
        if blk is None or k0 is None or "ztail" in d:
            continue
        tail, tv = [("ztail: |\n  hello\n", "hello\n"), ("ztail: |+\n  hello\n\n", "hello\n\n"), ("ztail: >\n  hello\n", "hello\n"),
                    ("ztail: |-\n  hello\n", "hello")][di % 4]
        text = blk + tail
        if (di // 4) % 2 == 1:
            text = "".join("   " + ln if ln.strip() else ln for ln in text.splitlines(True))
        try:
            if _yaml.safe_load(text).get("ztail") != tv:
                continue
        except Exception:
            continue
        vrules = "rule tail_nl { ztail == /^hello\\n$/ }\nrule tail_nl2 { ztail == /^hello\\n\\n$/ }\nrule tail_bare { ztail == \"hello\" }\nrule first_key { %s exists }\n" % k0
        want = [["tail_nl", "PASS" if tv == "hello\n" else "FAIL"], ["tail_nl2", "PASS" if tv == "hello\n\n" else "FAIL"],
                ["tail_bare", "PASS" if tv == "hello" else "FAIL"], ["first_key", "PASS"]]
        jtext = json.dumps(dict(d, ztail=tv))
        for form, t in (("yaml-block", text), ("json", jtext)):
            vjobs.append({"id": len(vjobs), "op": "cli", "argv": ["validate", "-r", "{DIR}/r.guard", "-d", "{DIR}/d.yaml", "--structured", "-o", "json", "-S", "none"],
                          "files": {"r.guard": vrules, "d.yaml": t}})
            vmeta.append((di, form, t, vrules, want))
    for (di, form, t, vrules, want), r in zip(vmeta, ctx.hp.map(vjobs, timeout=60)):
        res.evaluations += 1
        res.stats["c11-validate-command:" + form] += 1
        code = (r.get("result") or {}).get("code")
        info = {"rules": vrules, "data": t, "class": "c11-validate-command"}
        if code not in (0, 19):
            res.judge_failures.append(dict(info, what="`validate` did not evaluate a well-formed %s document (exit %s): %s" % (form, code, (r.get("stderr") or "")[:200])))
            continue
        try:
            P_ = partition_of_report(json.loads(r["stdout"])[0])
            got = [[nm, st] for nm, _ in want for st in ("PASS", "FAIL", "SKIP") if nm in P_[st]]
        except Exception as e:
            res.judge_failures.append(dict(info, what="`validate` report unreadable: %s" % e))
            continue
        res.nontrivial.add(("validate", di, form))
        if got != want:
            res.judge_failures.append(dict(info, what="`validate` read the %s document differently from its YAML meaning: rule statuses %s, expected %s" % (form, got, want)))
    # tags: exhaustive over the table
    from extract import read, strip_comments
    import re as _re
    rm = strip_comments(read("rules/mod.rs"))
    table = _re.findall(r'm\.insert\("([^"]*)",\s*"([^"]*)"\)', rm)
    treqs, tmeta = [], []
    for short, long_ in table:
        for kind, payload, lp in (("scalar", "v.w", '"v.w"'), ("sequence", "[a, b]", '["a", "b"]')):
            for loader in ("libyaml", "serde_yaml"):
                treqs.append({"id": len(treqs), "op": "data", "data": "x: !%s %s\n" % (short, payload), "loader": loader})
                tmeta.append((short, long_, kind, loader, "short"))
                treqs.append({"id": len(treqs), "op": "data", "data": 'x: {"%s": %s}\n' % (long_, lp), "loader": loader})
                tmeta.append((short, long_, kind, loader, "long"))
    tresp = ctx.hp.map(treqs)
    by = {}
    for m, r in zip(tmeta, tresp):
        by[m] = strip_loc(r["ok"]) if "ok" in r else {"error": r.get("err")}
    for short, long_ in table:
        for kind in ("scalar", "sequence"):
            res.evaluations += 1
            res.nontrivial.add(("tag", short, kind))
            vals = {ld: (by[(short, long_, kind, ld, "short")], by[(short, long_, kind, ld, "long")]) for ld in ("libyaml", "serde_yaml")}
            bad = [ld for ld, (s_, l_) in vals.items() if s_ != l_]
            if bad or vals["libyaml"][0] != vals["serde_yaml"][0]:
                res.judge_failures.append({"what": "short form !%s with a %s payload is not equivalent to {%s: ...} under %s (or the loaders disagree)" % (short, kind, long_, bad or "both"),
                                           "class": "c11-tag-offkind" if True else "c11-tag", "tag": short, "kind": kind,
                                           "libyaml": vals["libyaml"][0], "serde_yaml": vals["serde_yaml"][0]})
    # rejection of malformed text and non-string keys
    badtexts = ['{"a": [1, 2', "a: [1, 2", "a: b: c: [", '{"a" 1}', "{1: a}", "? [a, b]\n: c\n", "{true: 1}", "{null: 1}", "{1.5: x}", "\t- a\n  b: [", "a: 'unterminated"]
    rresp = ctx.hp.map([{"id": i, "op": "data", "data": t, "loader": ld} for i, (t, ld) in enumerate([(t, ld) for t in badtexts for ld in ("libyaml", "serde_yaml", "run_checks")])])
    for (t, ld), r in zip([(t, ld) for t in badtexts for ld in ("libyaml", "serde_yaml", "run_checks")], rresp):
        res.evaluations += 1
        if "ok" in r:
            res.judge_failures.append({"what": "text that is not a document with string keys was loaded by %s instead of being rejected" % ld,
                                       "class": "c11-accepted-bad", "data": t, "loaded": strip_loc(r["ok"])})
    res.add_sample({"serialisations": ["json-compact", "json-pretty", "yaml-flow", "yaml-block"], "loaders": ["libyaml", "serde_yaml", "run_checks", "serde_json"],
                    "example": json.dumps(docs[0])})
    return res


register("C11", ["Guard.Properties.C11"], run_C11)


# =============================================================================== C14

def segments(text):
    """split a rules text into ('code'|'str'|'regex'|'msg'|'comment', text) segments"""
    out, i, n = [], 0, len(text)
    cur = ""
    while i < n:
        c = text[i]
        if text.startswith("<<", i):
            j = text.find(">>", i)
            j = n if j < 0 else j + 2
            out.append(("code", cur)); cur = ""
            out.append(("msg", text[i:j])); i = j
        elif c in "'\"":
            j = i + 1
            while j < n and text[j] != c:
                j += 2 if text[j] == "\\" else 1
            out.append(("code", cur)); cur = ""
            out.append(("str", text[i:j + 1])); i = j + 1
        elif c == "/" and (not cur.rstrip() or cur.rstrip()[-1] in "=,[(" or cur.rstrip().endswith(" in") or cur.rstrip().endswith(" IN")):
            j = i + 1
            while j < n and text[j] != "/":
                j += 2 if text[j] == "\\" else 1
            out.append(("code", cur)); cur = ""
            out.append(("regex", text[i:j + 1])); i = j + 1
        elif c == "#":
            j = text.find("\n", i)
            j = n if j < 0 else j
            out.append(("code", cur)); cur = ""
            out.append(("comment", text[i:j])); i = j
        else:
            cur += c
            i += 1
    out.append(("code", cur))
    return out


KW_PAIRS = [("when", "WHEN"), ("exists", "EXISTS"), ("empty", "EMPTY"), ("some", "SOME"), ("in", "IN"), ("is_string", "IS_STRING"),
            ("is_list", "IS_LIST"), ("is_struct", "IS_STRUCT"), ("is_bool", "IS_BOOL"), ("is_int", "IS_INT"), ("is_float", "IS_FLOAT"),
            ("is_null", "IS_NULL"), ("null", "NULL"), ("this", "THIS"), ("or", "OR"), ("not", "NOT")]


def kw_named(ast):
    """does a keyword-table word occur as a string LEAF (a rule / variable / key name) of the typed AST?"""
    words = {w for pair in KW_PAIRS for w in pair}
    def walk(x):
        if isinstance(x, str):
            return x in words
        if isinstance(x, dict):
            return any(walk(v) for v in x.values())
        if isinstance(x, list):
            return any(walk(v) for v in x)
        return False
    return walk(ast)


def respell(rng, text, cls):
    """one token class varied: returns a variant of `text` (or None if the class does not occur)"""
    import re as _re
    segs = segments(text)
    changed = False
    out = []
    for kind, t in segs:
        if kind == "code":
            if cls == "keyword-case":
                def sw(m):
                    w = m.group(0)
                    for a, b in KW_PAIRS:
                        if w == a:
                            return b
                        if w == b:
                            return a
                    return w
                t2 = _re.sub(r"(?<![\w%.\"'\]|-])(" + "|".join(a + "|" + b for a, b in KW_PAIRS) + r")(?![\w(:|-])", sw, t)
            elif cls == "or-forms":
                t2 = _re.sub(r" (or|OR|\|OR\|) ", lambda m: " " + rng.choice(["or", "OR", "|OR|"]) + " ", t)
            elif cls == "or-newline":
                # a disjunction continued on the next line, with or without a comment at the end of the first line
                t2 = _re.sub(r" (or|OR|\|OR\|) ", lambda m: rng.choice(["\n  ", "  # why\n", "\n\n ", " #c\n   #d\n "]) + m.group(1) + " ", t)
            elif cls == "not-forms":
                t2 = _re.sub(r"(?<![\w.])(not |NOT |!)(?=[A-Za-z%\"'])", lambda m: rng.choice(["not ", "NOT ", "!"]), t)
            elif cls == "assign":
                t2 = _re.sub(r"(let \w+) (=|:=) ", lambda m: m.group(1) + " " + rng.choice(["=", ":="]) + " ", t)
            elif cls == "index-form":
                t2 = _re.sub(r"(?<=[A-Za-z_\]])\[(\d+)\]", lambda m: "." + m.group(1) if rng.random() < 0.7 else m.group(0), t)
                t2 = _re.sub(r"(?<=[A-Za-z_\]])\.(\d+)(?![\w.])", lambda m: "[" + m.group(1) + "]" if rng.random() < 0.7 else m.group(0), t2)
            elif cls == "layout":
                t2 = _re.sub(r"\n", lambda m: rng.choice(["\n", "\n\n", " \n", "\n   ", "\n\t", "  \n  "]), t)
                t2 = _re.sub(r", ", lambda m: rng.choice([", ", ",", " , ", ",\n "]), t2)
            elif cls == "comments":
                t2 = _re.sub(r"\n", lambda m: rng.choice(["\n", "\n# a comment\n", " # trailing\n", "\n   # indented # twice\n"]), t)
            else:
                t2 = t
            changed |= (t2 != t)
            out.append(t2)
        elif kind == "str" and cls == "quotes":
            body = t[1:-1]
            import re as _re2
            if "\\" not in _re2.sub(r"\\[\"']", "", body):
                # the string's content: backslash escapes only protect quote characters
                content = _re2.sub(r"\\([\"'])", r"\1", body)
                q = rng.choice(["'", '"'])
                t2 = q + content.replace(q, "\\" + q) + q
                changed |= (t2 != t)
                out.append(t2)
            else:
                out.append(t)
        else:
            out.append(t)
    return "".join(out) if changed else None


def strip_ast(a):
    """AST without source positions and display strings"""
    if isinstance(a, dict):
        return {k: strip_ast(v) for k, v in a.items() if k not in ("loc", "display")}
    if isinstance(a, list):
        return [strip_ast(x) for x in a]
    return a


def run_C14(ctx):
    res = Result("random rule files x documents: each file is re-spelled one token class at a time (keyword case, or / OR / "
                 "|OR|, not / NOT / !, = / :=, quotes, .n / [n], indentation-blank lines-line breaks, # comments), the REAL "
                 "parser's ASTs (positions erased) and the verdicts must coincide; explicit leading `this.`, clauses outside "
                 "any rule vs `rule default`, type block vs Resources.*[ Type == .. ] block; indices beyond the i32 range as .n "
                 "and [n]; filters beginning with a quoted name with / without blanks after `[`; non-trivial = distinct variant "
                 "that differs textually from its base")
    rng = random.Random(ctx.seed)
    n = 3000 if ctx.thorough() else 300
    classes = ["keyword-case", "or-forms", "or-newline", "not-forms", "assign", "quotes", "index-form", "layout", "comments"]
    cases, groups = [], []
    for i in range(n):
        g = gen.G(ctx.seed * 2900017 + i)
        d = g.cfn_doc() if g.p(0.2) else g.doc()
        base = g.rules_file(d, cfn=("Resources" in d))
        data = json.dumps(d)
        bi = len(cases)
        cases.append({"rules": base, "data": data})
        vs = []
        for cls in classes:
            for _ in range(2 if ctx.thorough() else 1):
                v = respell(rng, base, cls)
                if v is not None and v != base:
                    vs.append((cls, len(cases)))
                    cases.append({"rules": v, "data": data})
        groups.append((bi, vs))
    # strings that contain quote characters, written with either kind of quote
    QS = ["O'Neil", 'say "hi"', "it's", "'", '"', "a'b\"c", "x"]
    for i in range(40 if ctx.thorough() else 12):
        a, b, c = rng.choice(QS), rng.choice(QS), rng.choice(QS)
        d = {"a": a, "b": b, "c": [c, "x"]}
        lit = lambda s_: '"' + s_.replace('"', '\\"') + '"'
        base = "rule q {\na == %s\nb in [%s, %s] <<it's a \"message\">>\nsome c[*] == %s\nb != %s\n}\n" % (lit(a), lit(b), lit("zz'z"), lit(c), lit(a + "'"))
        bi = len(cases)
        cases.append({"rules": base, "data": json.dumps(d)})
        vs = []
        for _ in range(3):
            v = respell(rng, base, "quotes")
            if v is not None and v != base:
                vs.append(("quotes", len(cases)))
                cases.append({"rules": v, "data": json.dumps(d)})
        groups.append((bi, vs))
    # directed: indices outside the i32 range written `.n` and `[n]`; a filter whose first clause begins with a quoted
    # property name, with and without blanks / line breaks after `[`
    BIG = [4294967297, 2147483648, 4294967296, 2147483647, 8589934593, 9223372036854775807, 4294967295]
    for i in range(len(BIG)):
        nidx = BIG[i]
        d = {"a": [10, 20, 30], "Items": [{"aws:stage": "prod", "n": 1}, {"aws:stage": "dev", "n": 2}, {"k": "v", "n": 3}]}
        base = "rule big {\na.%d == 20\nsome a.%d exists\na.%d !exists\n}\n" % (nidx, nidx, nidx)
        bi = len(cases)
        cases.append({"rules": base, "data": json.dumps(d)})
        cases.append({"rules": base.replace("a.%d" % nidx, "a[%d]" % nidx), "data": json.dumps(d)})
        groups.append((bi, [("index-form", bi + 1)]))
        key, val = [("aws:stage", "prod"), ("k", "v"), ("aws:stage", "dev")][i % 3]
        fb = "rule flt {\nItems[ '%s' == '%s' ].n >= %d\nItems[ '%s' == '%s' ] !empty\n}\n" % (key, val, i % 3, key, val)
        bi = len(cases)
        cases.append({"rules": fb, "data": json.dumps(d)})
        cases.append({"rules": fb.replace("[ '", "['").replace("' ]", "']"), "data": json.dumps(d)})
        cases.append({"rules": fb.replace("[ '%s'" % key, '["%s"' % key), "data": json.dumps(d)})
        cases.append({"rules": fb.replace("[ '", "[\n    '"), "data": json.dumps(d)})
        groups.append((bi, [("layout", bi + 1), ("quotes", bi + 2), ("layout", bi + 3)]))
    # desugarings with a structured generator
    for i in range(n // 3):
        g = gen.SG(ctx.seed * 3100019 + i, core=True)
        d = g.doc()
        p = g.program(d)
        import copy, re as _re
        data = json.dumps(d)
        bi = len(cases)
        cases.append({"rules": gen.print_program(p), "data": data})
        vs = []
        q = copy.deepcopy(p)
        hit = False
        for r_ in q["rules"]:
            for line in r_["lines"]:
                for k, alt in enumerate(line):
                    m = _re.match(r"^(not |NOT |!)?(some |SOME )?([a-z]\w*)(?=[.\[ ])", alt)
                    if m and m.group(3) not in ("when", "not", "some", "this", "chk") and not _re.fullmatch(r"r\d+", m.group(3)) and not alt.lstrip().startswith(("when", "WHEN")) and "{" not in alt.split("\n")[0]:
                        line[k] = (m.group(1) or "") + (m.group(2) or "") + "this." + alt[m.end(3) - len(m.group(3)):]
                        hit = True
        if hit:
            vs.append(("this-prefix", len(cases)))
            cases.append({"rules": gen.print_program(q), "data": data})
        groups.append((bi, vs))
        # default rule: the lines of one rule written outside any rule
        r0 = p["rules"][0]
        if not r0["lets"] and all("\n" not in a and not _re.match(r"^(not |!)?r\d", a) for l in r0["lines"] for a in l):
            body = "\n".join(" or ".join(l) for l in r0["lines"])
            bi2 = len(cases)
            cases.append({"rules": "\n".join(p["lets"]) + "\nrule default {\n" + body + "\n}\n", "data": data})
            cases.append({"rules": "\n".join(p["lets"]) + "\n" + body + "\n", "data": data})
            groups.append((bi2, [("default-rule", bi2 + 1)]))
    # type block vs filter block (on documents WITH a Resources struct: the partial statement)
    for i in range(n // 3):
        g = gen.G(ctx.seed * 3300023 + i, core=True)
        d = g.cfn_doc()
        t = g.ch(["AWS::S3::Bucket", "AWS::EC2::Volume", "Custom::Thing"])
        sample = {"Type": t, "Properties": {"Size": 1, "Name": "a", "Enc": True, "Tags": [], "a": 1}}
        body = g.block_body(sample, [], 1)
        if g.p(0.5):
            # a body guarded by a condition (often false for every matched resource: the block is then skipped)
            cond = g.ch(["Properties.Nope exists", "Properties.Size == 12345", "Type == 'zzz'", "Properties.Size exists",
                         g.cnf(sample, [], 0, inline=True, maxlines=1)])
            body = "when %s {\n%s\n}" % (cond, body)
        data = json.dumps(d)
        bi = len(cases)
        cases.append({"rules": "rule r {\n%s {\n%s\n}\n}\n" % (t, body), "data": data})
        cases.append({"rules": "rule r {\nResources.*[ Type == '%s' ] {\n%s\n}\n}\n" % (t, body), "data": data})
        groups.append((bi, [("type-block", bi + 1)]))
    # canonical replay of the listed known finding F-C14-1 (always run)
    kf = os.path.join(VERIF, "corpus", "known", "F-C14-1.json")
    if os.path.exists(kf):
        k = json.load(open(kf))
        bi = len(cases)
        cases.append({"rules": k["rules_type_block"], "data": k["data"]})
        cases.append({"rules": k["rules_filter_block"], "data": k["data"]})
        groups.append((bi, [("type-block", bi + 1)]))
    results = vlib.correspond(cases, ctx.hp, ctx.mp)
    absorb(res, results, "C14 respelled programs")
    res.nontrivial = set()
    for bi, vs in groups:
        base = results[bi]
        for cls, k in vs:
            v = results[k]
            res.stats["c14-class:" + cls] += 1
            res.nontrivial.add(k)
            info = {"base_rules": base["case"]["rules"], "rules": v["case"]["rules"], "data": base["case"]["data"], "token_class": cls}
            bo, vo = base["impl"], v["impl"]
            if cls in classes:
                # same program: same AST
                if base.get("ast_ok") != v.get("ast_ok"):
                    res.judge_failures.append(dict(info, what="re-spelling (%s) changes whether the file parses: base %s, variant %s" % (
                        cls, base.get("parse") or "parsed", v.get("parse") or "parsed"), **{"class": "c14-parse"}))
                    continue
                if base.get("ast") is not None and strip_ast(base["ast"]) != strip_ast(v["ast"]):
                    if cls == "keyword-case" and kw_named(base["ast"]):
                        # a word of the keyword table is used as a NAME in the base program (`inner !empty` inside a `when`
                        # condition is the negated reference to a rule called `empty`): the textual re-spelling renames it,
                        # which is not a re-spelling of a keyword - no claim
                        res.stats["c14-skip-keyword-used-as-name"] += 1
                        continue
                    res.judge_failures.append(dict(info, what="re-spelling (%s) changes the parsed program" % cls, **{"class": "c14-ast"}))
                    continue
            if bo.get("kind") == "ok" and vo.get("kind") == "ok":
                same = bo["status"] == vo["status"] and [s for _, s in bo["rules"]] == [s for _, s in vo["rules"]]
                if not same:
                    cls2 = "c14-typeblock" if cls == "type-block" else "c14-verdict"
                    res.judge_failures.append(dict(info, what="%s changes a verdict: %s/%s vs %s/%s" % (cls, bo["rules"], bo["status"], vo["rules"], vo["status"]), **{"class": cls2}))
            elif bo.get("kind") != vo.get("kind") or (bo.get("kind") == "err" and bo.get("err") != vo.get("err")):
                docj = json.loads(base["case"]["data"])
                if cls == "type-block" and not (isinstance(docj.get("Resources"), dict) and docj.get("Resources")):
                    res.judge_failures.append(dict(info, what="type block and filter block differ on a document without resources: %s vs %s" % (
                        {k_: x for k_, x in bo.items() if k_ != "tree"}, {k_: x for k_, x in vo.items() if k_ != "tree"}), **{"class": "c14-typeblock-no-resources"}))
                else:
                    res.judge_failures.append(dict(info, what="%s changes the outcome: %s vs %s" % (cls, {k_: x for k_, x in bo.items() if k_ != "tree"}, {k_: x for k_, x in vo.items() if k_ != "tree"}), **{"class": "c14-outcome"}))
        if len(res.samples) < 3 and vs:
            res.add_sample({"base": base["case"]["rules"][:200], "variant_class": vs[0][0], "variant": results[vs[0][1]]["case"]["rules"][:200]})
    return res


register("C14", ["Guard.Properties.C14"], run_C14)


# =============================================================================== C19

def c19_template(g, clean=True):
    types = ["AWS::S3::Bucket", "AWS::EC2::Volume", "Custom::Thing"][: g.ch([1, 2, 3])]
    strs = ["a", "b", "us-west-2b", "x y", "10", "true", "é", "C:\\temp\\logs", "^\\d{1,3}$", "tab\there", "a\\", ""] + ([] if clean else [" lead", "trail ", "   "])
    pnames = {t: g.r.sample(["Size", "Name", "Enc", "Zone", "Tags", "Cfg"], g.ch([1, 2, 3])) for t in types}
    res = {}
    for i in range(g.ch([1, 2, 3, 4, 5])):
        t = g.ch(types)
        props = {}
        for p in pnames[t]:          # clean: every resource of a type has the same property names
            k = g.r.randrange(8)
            if k < 3:
                v = g.ch(strs)
            elif k < 5:
                v = g.ch([1, 2, 50, 500, -1])
            elif k < 6:
                v = g.ch([True, False])
            elif k < 7:
                v = [g.ch(strs), g.ch([1, 2])]
            else:
                v = {"k": g.ch(strs), "n": [g.ch([1, 2])]}
            props[p] = v
        res["R%d" % i] = {"Type": t, "Properties": props}
    return {"Resources": res}


def render_value(v):
    """`gen_rules`'s rendering of a property value"""
    if isinstance(v, str):
        return '"' + v.strip().replace("\n", "") + '"'
    return json.dumps(v, separators=(",", ":"), ensure_ascii=False).strip().replace("\n", "")


def typed_to_py(t):
    k = t["t"]
    if k == "null":
        return None
    if k in ("str", "regex", "char"):
        return t["v"]
    if k == "bool":
        return t["v"]
    if k == "int":
        return int(t["v"])
    if k == "float":
        import struct
        return struct.unpack("<d", struct.pack("<Q", int(t["v"])))[0]
    if k == "list":
        return [typed_to_py(x) for x in t["v"]]
    if k == "map":
        return {kk: typed_to_py(x) for kk, x in zip(t["k"], t["v"])}
    return ("range", t)


def emitted_rule_map(ast):
    """{rule name: {property: [python values]}} from the AST of the emitted rules"""
    out = {}
    for r in ast["rules"]:
        props = {}
        for line in r["block"]["cnf"]:
            for c in line:
                parts = c["q"]["parts"]
                names = [p_["k"] for p_ in parts if p_["t"] == "key"]
                pname = names[-1]
                lit = typed_to_py(c["with"]["v"])
                vals = lit if (c["cmp"][0] == "In" and isinstance(lit, list)) else [lit]
                props[pname] = vals
        out[r["name"]] = props
    return out


def c19_list_mixed(t):
    """a (type, property) with >= 2 distinct values of which one is a list while the value printed first
    (sorted rendering) is not a list: the emitted `IN [scalar, [..]]` reads the list-valued property as a subset test"""
    by = {}
    for r in t["Resources"].values():
        for p, v in (r.get("Properties") or {}).items():
            by.setdefault((r["Type"], p), []).append(v)
    for vals in by.values():
        rend = sorted({render_value(v) for v in vals})
        if len(rend) >= 2 and any(isinstance(v, list) for v in vals) and not rend[0].startswith("["):
            return True
    return False


def c19_nested_escape(t):
    """does a property hold a LIST or STRUCT that contains a string JSON has to escape (backslash, quote, control)?"""
    def needs(v):
        if isinstance(v, str):
            return any(c in '\\"' or ord(c) < 32 for c in v)
        if isinstance(v, list):
            return any(needs(x) for x in v)
        if isinstance(v, dict):
            return any(needs(x) or needs(k) for k, x in v.items())
        return False
    for r in t.get("Resources", {}).values():
        for v in (r.get("Properties") or {}).values() if isinstance(r, dict) and isinstance(r.get("Properties"), dict) else []:
            if isinstance(v, (list, dict)) and needs(v):
                return True
    return False


def run_C19(ctx):
    res = Result("generated CloudFormation-shaped templates (1..5 resources over 1..3 types; scalar string/int/bool and nested "
                 "list/map property values; repeated and distinct values; resources of a type share their property names) -> "
                 "real `rulegen` -> real parser -> real `validate` of the source template against the emitted rules (every rule "
                 "must PASS); then every scalar property occurrence mutated to a fresh value (the corresponding rule must FAIL); "
                 "the emitted clauses are compared with the Lean rule map; non-trivial = template with >= 1 emitted rule")
    n = 1500 if ctx.thorough() else 150
    temps = []
    for i in range(n):
        g = gen.G(ctx.seed * 3700001 + i)
        temps.append(c19_template(g))
    # canonical known findings
    known = []
    kdir = os.path.join(VERIF, "corpus", "known")
    for f in sorted(os.listdir(kdir)):
        k = json.load(open(os.path.join(kdir, f)))
        if k.get("property") == "C19":
            known.append(k)
            temps.append(json.loads(k["template"]))
    jobs = [{"argv": ["rulegen", "-t", "{DIR}/t.json"], "files": {"t.json": json.dumps(t)}} for t in temps]
    outs = vlib.run_cli_many(jobs)
    # parse emitted rules + validate source against them
    creqs = [{"id": i, "op": "case", "rules": o["stdout"], "data": json.dumps(t)} for i, (t, o) in enumerate(zip(temps, outs))]
    cresp = ctx.hp.map(creqs)
    # model rule map
    mreqs = []
    for i, t in enumerate(temps):
        rs = []
        for r in t["Resources"].values():
            if isinstance(r.get("Properties"), dict):
                rs.append({"type": r["Type"], "props": [[p, render_value(v)] for p, v in r["Properties"].items()]})
        mreqs.append({"id": i, "op": "rulegen", "resources": rs})
    mresp = ctx.mp.map(mreqs)
    mut_jobs, mut_meta = [], []
    for i, (t, o, c, m) in enumerate(zip(temps, outs, cresp, mresp)):
        res.evaluations += 1
        is_known = i >= n
        kclass = known[i - n]["class"] if is_known else None
        info = {"template": json.dumps(t), "emitted": o["stdout"][:1500]}
        if o["code"] != 0:
            res.stats["c19-rulegen-exit:%s" % o["code"]] += 1
            continue
        types_with_props = sorted({r["Type"] for r in t["Resources"].values() if isinstance(r.get("Properties"), dict) and r["Properties"]})
        if not o["stdout"].strip():
            if "error" in o["stderr"].lower() or not types_with_props:
                res.stats["c19-reported-error-or-empty"] += 1
            else:
                res.judge_failures.append(dict(info, what="rulegen printed neither rules nor an error (stderr %r)" % o["stderr"][:200], **{"class": kclass or "c19-silent"}))
            continue
        ast = c.get("ast", {})
        if ast.get("ok") is None:
            res.judge_failures.append(dict(info, what="the emitted text does not parse as a rules file: %s" % ast.get("msg", "")[:200], **{"class": kclass or "c19-parse"}))
            continue
        res.nontrivial.add(i)
        names = [r["name"] for r in ast["ok"]["rules"]]
        want_names = sorted(tn.replace("::", "_").lower() for tn in types_with_props)
        if sorted(names) != want_names:
            res.judge_failures.append(dict(info, what="one rule per resource type with properties expected %s, emitted %s" % (want_names, sorted(names)), **{"class": kclass or "c19-rules"}))
        obs = vlib.obs_of_impl(c)
        if obs["kind"] != "ok" or any(s != "PASS" for _, s in obs["rules"]):
            res.judge_failures.append(dict(info, what="validating the source template against its own generated rules: %s" % (obs.get("rules") or obs),
                                           **{"class": kclass or ("c19-list-mixed" if c19_list_mixed(t) else ("c19-nested-escape" if c19_nested_escape(t) else "c19-not-pass"))}))
            continue
        # correspondence: emitted clauses == model rule map
        em = emitted_rule_map(ast["ok"])
        mm = {tn.replace("::", "_").lower(): {p: vs for p, vs in pm} for tn, pm in m.get("map", [])}
        ok = set(em) == set(mm)
        for tn in em:
            if not ok:
                break
            if set(em[tn]) != set(mm.get(tn, {})):
                ok = False
                break
            for p, vals in em[tn].items():
                rendered = sorted(render_value(v) for v in vals)
                if rendered != sorted(mm[tn][p]):
                    ok = False
        if not ok and not is_known and c19_nested_escape(t):
            # a nested value with a backslash / quote is emitted with JSON escapes that the Guard lexer does not undo
            # (F-C19-5): re-rendering the PARSED clause cannot give back the emitted text, the comparison has no meaning
            res.stats["c19-map-comparison-skipped-nested-escape"] += 1
        elif not ok and not is_known:
            res.disagreements.append(dict(info, what="emitted clauses differ from the model's rule map", emitted_map=str(em)[:600], model_map=str(mm)[:600]))
        # mutations: every scalar occurrence
        for rn, r in t["Resources"].items():
            for p, v in (r.get("Properties") or {}).items():
                if isinstance(v, (str, int, bool)) and not is_known:
                    fresh = "zz-fresh" if isinstance(v, str) else (not v if isinstance(v, bool) else 987654)
                    same_tp = [rr["Properties"].get(p) for rr in t["Resources"].values() if rr["Type"] == r["Type"] and isinstance(rr.get("Properties"), dict)]
                    if any(type(x) == type(fresh) and x == fresh for x in same_tp):
                        continue
                    t2 = json.loads(json.dumps(t))
                    t2["Resources"][rn]["Properties"][p] = fresh
                    mut_jobs.append({"id": len(mut_jobs), "op": "case", "rules": o["stdout"], "data": json.dumps(t2)})
                    mut_meta.append((i, r["Type"].replace("::", "_").lower(), rn, p, v, fresh))
                    # the same spelling with another TYPE (true -> "true", 100 -> "100", "7" -> 7) is another value too
                    retyped = ("true" if v else "false") if isinstance(v, bool) else (str(v) if isinstance(v, int) else
                              (int(v) if v.isdigit() and len(v) < 15 and str(int(v)) == v else None))
                    if retyped is not None and not any(type(x) == type(retyped) and x == retyped for x in same_tp):
                        t3 = json.loads(json.dumps(t))
                        t3["Resources"][rn]["Properties"][p] = retyped
                        mut_jobs.append({"id": len(mut_jobs), "op": "case", "rules": o["stdout"], "data": json.dumps(t3)})
                        mut_meta.append((i, r["Type"].replace("::", "_").lower(), rn, p, v, retyped))
        if len(res.samples) < 2:
            res.add_sample({"template": t, "emitted": o["stdout"], "verdicts": obs["rules"]})
    # (b) YAML templates with short-form intrinsic tags: rulegen may refuse them, but rules it does emit must PASS on the
    # template as `validate` reads it (the tags expand to their long forms there)
    tag_t = []
    for k in range(6):
        vals = ["!Ref NameParam", "!GetAtt Other.Arn", "!Sub \"${X}-y\"", "!Join [\"-\", [a, b]]", "plain", "7"]
        props_ = "".join("      P%d: %s\n" % (j, vals[(k + j) % len(vals)]) for j in range(3))
        tag_t.append("Resources:\n  b:\n    Type: AWS::S3::Bucket\n    Properties:\n%s  c:\n    Type: AWS::S3::Bucket\n    Properties:\n%s" % (props_, props_))
    touts = vlib.run_cli_many([{"argv": ["rulegen", "-t", "{DIR}/t.yaml"], "files": {"t.yaml": t_}} for t_ in tag_t])
    vjobs, vown = [], []
    for t_, o_ in zip(tag_t, touts):
        res.evaluations += 1
        res.stats["c19-tagged-template-rulegen-exit:%s" % o_["code"]] += 1
        if o_["code"] == 0 and o_["stdout"].strip():
            vjobs.append({"argv": ["validate", "-r", "{DIR}/g.guard", "-d", "{DIR}/t.yaml", "-S", "all"], "files": {"g.guard": o_["stdout"], "t.yaml": t_}})
            vown.append((t_, o_))
    for (t_, o_), vo in zip(vown, vlib.run_cli_many(vjobs)):
        if vo["code"] != 0:
            res.judge_failures.append({"what": "rules generated from a template with short-form tags do not PASS on it: validate exits %s" % vo["code"],
                                       "class": "c19-tagged-template", "template": t_, "emitted": o_["stdout"][:1500], "stdout": vo["stdout"][:600]})
    # (c) `--output FILE`: the file holds exactly the generated rules, whatever it held before
    ojobs = []
    for t in temps[:6]:
        tj = json.dumps(t)
        old_ = "# previously generated\n" + "rule old_rule_%d { this exists }\n" * 1 % 0 + "rule stale { this exists\n this !empty }\n" * 40
        ojobs.append({"argv": ["rulegen", "-t", "{DIR}/t.json"], "files": {"t.json": tj}})
        ojobs.append({"argv": ["rulegen", "-t", "{DIR}/t.json", "-o", "{DIR}/out.guard"], "files": {"t.json": tj, "out.guard": old_}, "read_back": ["out.guard"]})
        ojobs.append({"argv": ["rulegen", "-t", "{DIR}/t.json", "-o", "{DIR}/fresh.guard"], "files": {"t.json": tj}, "read_back": ["fresh.guard"]})
    oouts = vlib.run_cli_many(ojobs)
    for k in range(0, len(oouts), 3):
        a, b, c_ = oouts[k], oouts[k + 1], oouts[k + 2]
        res.evaluations += 1
        if a["code"] != 0:
            continue
        for nm, o_ in (("out.guard", b), ("fresh.guard", c_)):
            got = (o_.get("read_back") or {}).get(nm)
            if o_["code"] != 0 or got is None or got.strip() != a["stdout"].strip():
                res.judge_failures.append({"what": "rulegen -o %s: the file does not hold the generated rules (exit %s, %s)" % (
                                               nm, o_["code"], "missing" if got is None else "%d bytes vs %d on stdout" % (len(got), len(a["stdout"]))),
                                           "class": "c19-output-file", "template": ojobs[k]["files"]["t.json"], "emitted": a["stdout"][:800], "file": (got or "")[:800]})
    mresp2 = ctx.hp.map(mut_jobs)
    for (i, rname, rn, p, v, fresh), r in zip(mut_meta, mresp2):
        res.evaluations += 1
        res.stats["c19-mutations"] += 1
        obs = vlib.obs_of_impl(r)
        st = dict((a, b) for a, b in obs.get("rules", [])) if obs["kind"] == "ok" else {}
        if st.get(rname) != "FAIL" and not c19_list_mixed(temps[i]):
            res.judge_failures.append({"what": "changing %s.Properties.%s from %r to the fresh value %r does not make rule %s FAIL (%s)" % (rn, p, v, fresh, rname, st or obs),
                                       "class": "c19-mutation", "template": json.dumps(temps[i]), "emitted": outs[i]["stdout"][:1500]})
    return res


register("C19", ["Guard.Properties.C19"], run_C19, needs_cli=True)


# =============================================================================== C05

C05_ENVS = [{}, {"TZ": "Asia/Tokyo", "LC_ALL": "C.UTF-8"}, {"TZ": "America/Los_Angeles", "PWD": "/", "LANG": "C", "LC_ALL": "C"},
            {"HOME": "/nonexistent", "COLUMNS": "40", "TERM": "dumb", "TZ": "UTC"}, {"RUST_BACKTRACE": "1", "USER": "someone-else", "TZ": "PST8PDT"},
            {"LANG": "tr_TR.UTF-8"}]


def c05_norm(kind, text):
    """what the statement excludes from byte identity: JUnit elapsed-time attributes; for console output, the
    order of lines"""
    import re as _re
    if kind == "junit":
        return _re.sub(r'\btime="[^"]*"', 'time=""', text)
    if kind == "plain":
        return "\n".join(sorted(text.split("\n")))
    return text


def c05_scenarios(ctx, n):
    import re as _re
    rng = random.Random(ctx.seed * 977 + 5)
    out = []
    for i in range(n):
        g = gen.G(ctx.seed * 2300017 + i)
        kind = ["validate", "validate", "validate", "test", "parse-tree", "rulegen"][i % 6]
        if kind == "validate":
            cfn = rng.random() < 0.5
            docs = [g.cfn_doc() if cfn else g.doc() for _ in range(rng.choice([1, 2, 3]))]
            rfiles = [g.rules_file(docs[0], depth=2, cfn=cfn) for _ in range(rng.choice([1, 2]))]
            if i % 2 == 0:
                # one name in two spelling conventions, queried in a third and a fourth (case-conversion fallback)
                for d_ in docs:
                    d_["retentionDays"] = 1
                    d_["RetentionDays"] = 2
                    d_["max_size"] = "m"
                    d_["MaxSize"] = "M"
                rfiles[0] += ("rule zcase1 {\nretention_days == 1\n}\nrule zcase2 {\nthis.'retention-days' == 2\n}\n"
                              "rule zcase3 {\nmaxSize == 'm'\nthis.'Max-Size' == 'M'\n}\n")
            files = {}
            for k, t in enumerate(rfiles):
                files["rd/r%d.guard" % k] = t
            for k, d in enumerate(docs):
                files["dd/d%d.json" % k] = json.dumps(d)
            ra = sum([["-r", "{DIR}/rd/r%d.guard" % k] for k in range(len(rfiles))], [])
            da = sum([["-d", "{DIR}/dd/d%d.json" % k] for k in range(len(docs))], [])
            base = ["validate"] + ra + da
            modes = [("plain", "plain", base + ["-S", "all"]),
                     ("verbose", "plain", base + ["-S", "all", "-v"]),
                     ("print-json", "plain", base + ["-S", "all", "-p"]),      # JSON tree followed by the console report
                     ("o-json", "bytes", base + ["-o", "json", "-S", "none"]),
                     ("o-yaml", "bytes", base + ["-o", "yaml", "-S", "none"]),
                     ("s-json", "bytes", base + ["--structured", "-o", "json", "-S", "none"]),
                     ("s-yaml", "bytes", base + ["--structured", "-o", "yaml", "-S", "none"]),
                     ("s-sarif", "bytes", base + ["--structured", "-o", "sarif", "-S", "none"]),
                     ("s-junit", "junit", base + ["--structured", "-o", "junit", "-S", "none"]),
                     ("dir-a", "plain", ["validate", "-r", "{DIR}/rd", "-d", "{DIR}/dd", "-a", "-S", "all"]),
                     ("dir-a-json", "bytes", ["validate", "-r", "{DIR}/rd", "-d", "{DIR}/dd", "-a", "--structured", "-o", "json", "-S", "none"])]
            if cfn:
                modes.append(("cfn-plain", "plain", base + ["-S", "all", "-t", "CFNTemplate"]))
            if len(docs) > 1:
                # the same data files in the opposite order: what is reported per file must not depend on what was
                # evaluated before it in the process
                da_rev = sum([["-d", "{DIR}/dd/d%d.json" % k] for k in reversed(range(len(docs)))], [])
                modes.append(("plain-rev", "plain", ["validate"] + ra + da_rev + ["-S", "all"]))
            out.append({"kind": kind, "files": files, "modes": modes, "rules": "\n---\n".join(rfiles),
                        "data": json.dumps(docs)})
        elif kind == "test":
            gg = gen.G(ctx.seed * 1300021 + i, core=True)
            doc = gg.doc()
            rules = gg.rules_file(doc, depth=2, cfn=False)
            names = sorted(set(_re.findall(r"^rule (\w+)", rules, _re.M))) or ["default"]
            specs = []
            for k in range(rng.choice([1, 2, 3, 4])):
                inp = doc if k == 0 else gen.G(ctx.seed * 77 + i * 13 + k).doc()
                exp = {nm: rng.choice(["PASS", "FAIL", "SKIP"]) for nm in names if rng.random() < 0.8}
                specs.append({"name": "case%d" % k, "input": inp, "expectations": {"rules": exp}})
            files = {"x.guard": rules, "x_tests.json": json.dumps(specs),
                     "d/y.guard": rules, "d/tests/y_tests.json": json.dumps(specs), "d/z.guard": rules,
                     "d/tests/z_tests.json": json.dumps(specs[:1])}
            # several directories, one of them with a malformed test file (the walk order decides which exit code wins)
            for k_, dn in enumerate(["alpha", "beta", "gamma", "delta", "eps"]):
                files["m/%s/c%d.guard" % (dn, k_)] = rules
                files["m/%s/tests/c%d_tests.json" % (dn, k_)] = json.dumps(specs[: 1 + k_ % 2]) if k_ != 3 else "- name: [unclosed\n  input: {"

            base = ["test", "-r", "{DIR}/x.guard", "-t", "{DIR}/x_tests.json"]
            modes = [("plain", "plain", base), ("verbose", "plain", base + ["-v"]),
                     ("json", "bytes", base + ["-o", "json"]), ("yaml", "bytes", base + ["-o", "yaml"]),
                     ("junit", "junit", base + ["-o", "junit"]),
                     ("dir-plain", "plain", ["test", "-d", "{DIR}/d", "-a"]),
                     ("dir-json", "bytes", ["test", "-d", "{DIR}/d", "-a", "-o", "json"]),
                     ("dir-junit", "junit", ["test", "-d", "{DIR}/d", "-a", "-o", "junit"]),
                     ("mdir-plain", "plain", ["test", "-d", "{DIR}/m", "-a"]),
                     ("mdir-json", "bytes", ["test", "-d", "{DIR}/m", "-a", "-o", "json"]),
                     ("mdir-junit", "junit", ["test", "-d", "{DIR}/m", "-a", "-o", "junit"])]
            out.append({"kind": kind, "files": files, "modes": modes, "rules": rules, "data": json.dumps(specs)})
        elif kind == "parse-tree":
            doc = g.doc()
            rules = g.rules_file(doc, depth=2, cfn=False)
            base = ["parse-tree", "-r", "{DIR}/r.guard"]
            modes = [("default", "bytes", base), ("json", "bytes", base + ["-p"]), ("yaml", "bytes", base + ["-y"])]
            out.append({"kind": kind, "files": {"r.guard": rules}, "modes": modes, "rules": rules, "data": ""})
        else:
            t = c19_template(g, clean=rng.random() < 0.7)
            txt = json.dumps(t)
            modes = [("rulegen", "plain", ["rulegen", "-t", "{DIR}/t.json"])]
            out.append({"kind": kind, "files": {"t.json": txt}, "modes": modes, "rules": "", "data": txt})
    # rules that refer to other rules by name, over data files on which the referenced rule PASSes, FAILs and SKIPs,
    # in both orders (a memoised rule status must not survive into the next data file)
    dep_rules = ("rule base when Resources exists {\nResources.*.Properties.Size > 5\n}\nrule dep {\nbase\n}\nrule ndep {\nnot base\n}\n"
                 "rule dep2 when base {\nx == 1\n}\nrule dep3 {\nbase or x == 2\n}\n")
    dep_docs = [{"Resources": {"a": {"Properties": {"Size": 10}}}, "x": 1}, {"Resources": {"a": {"Properties": {"Size": 1}}}, "x": 1}, {"x": 1},
                {"Resources": {"a": {"Properties": {"Size": 7}}, "b": {"Properties": {"Size": 2}}}, "x": 2}]
    for order in ([0, 1, 2], [1, 0], [2, 0, 1], [3, 2], [0, 3, 1, 2]):
        files = {"r.guard": dep_rules}
        for k in order:
            files["dd/d%d.json" % k] = json.dumps(dep_docs[k])
        fw = sum([["-d", "{DIR}/dd/d%d.json" % k] for k in order], [])
        bw = sum([["-d", "{DIR}/dd/d%d.json" % k] for k in reversed(order)], [])
        modes = [("plain", "plain", ["validate", "-r", "{DIR}/r.guard"] + fw + ["-S", "all"]),
                 ("plain-rev", "plain", ["validate", "-r", "{DIR}/r.guard"] + bw + ["-S", "all"]),
                 ("s-json", "bytes", ["validate", "-r", "{DIR}/r.guard"] + fw + ["--structured", "-o", "json", "-S", "none"])]
        out.append({"kind": "validate", "files": files, "modes": modes, "rules": dep_rules, "data": json.dumps([dep_docs[k] for k in order])})
    # query == query with several differing values on both sides: the failing checks are listed in a fixed order
    qq_rules = ("rule qq {\nallowed[*] == configured[*]\n}\nrule qn {\nallowed[*] != configured[*]\n}\nrule qi {\nallowed[*] in configured[*]\n}\n"
                "rule qm {\nm.*.tags[*] == m.*.want[*]\n}\n")
    qq_doc = {"allowed": [1, 2, 3, 4, 5, 6, 7, 8], "configured": [9, 10, 11, 12, 13, 14, 2],
              "m": {"a": {"tags": ["t1", "t2", "t3", "t4"], "want": ["w1", "w2", "w3"]}, "b": {"tags": ["u1", "u2"], "want": ["u1", "x", "y", "z"]}}}
    base = ["validate", "-r", "{DIR}/r.guard", "-d", "{DIR}/t.json"]
    out.append({"kind": "validate", "files": {"r.guard": qq_rules, "t.json": json.dumps(qq_doc)},
                "modes": [("plain", "plain", base + ["-S", "all"]), ("verbose", "plain", base + ["-S", "all", "-v"]),
                          ("s-json", "bytes", base + ["--structured", "-o", "json", "-S", "none"]),
                          ("s-yaml", "bytes", base + ["--structured", "-o", "yaml", "-S", "none"]),
                          ("s-sarif", "bytes", base + ["--structured", "-o", "sarif", "-S", "none"]),
                          ("s-junit", "junit", base + ["--structured", "-o", "junit", "-S", "none"]),
                          ("print-json", "plain", base + ["-S", "all", "-p"])],
                "rules": qq_rules, "data": json.dumps(qq_doc)})
    # error paths print too: a reference to a rule / parameterised rule that does not exist (the message lists the
    # known names), an unknown variable, a type error - stderr must be the same in every run
    for k, rules in enumerate([
            "rule a1 { x == 1 }\nrule a2 { x == 1 }\nrule a3 { x == 1 }\nrule a4 { x == 1 }\nrule r1 { nope }\n",
            "rule p1(v) { %v == 1 }\nrule p2(v) { %v == 1 }\nrule p3(v) { %v == 1 }\nrule p4(v) { %v == 1 }\nrule r1 { nope(x) }\n",
            "let q1 = x\nlet q2 = x\nlet q3 = x\nrule r1 { %zz == 1 }\n",
            "rule r1 { x empty }\nrule r2 { parse_int(y) == 1 }\n"]):
        base = ["validate", "-r", "{DIR}/r.guard", "-d", "{DIR}/t.json"]
        modes = [("plain", "plain", base + ["-S", "all"]), ("s-json", "bytes", base + ["--structured", "-o", "json", "-S", "none"])]
        out.append({"kind": "validate", "files": {"r.guard": rules, "t.json": json.dumps({"x": 1, "y": "q"})}, "modes": modes,
                    "rules": rules, "data": json.dumps({"x": 1, "y": "q"})})
    # input parameters that clash with the data file in SEVERAL top-level keys, several failing rules per rules file in
    # every structured format: whatever such a message / attribute lists, it lists in a fixed order
    clash_d = {"a": 1, "b": 2, "c": 3, "d": 4, "e": 5, "keep": 0}
    clash_p = {"e": 9, "c": 9, "a": 9, "b": 9, "extra": 1}
    many_fail = "".join("rule %s { keep == %d }\n" % (nm, k_ + 1) for k_, nm in enumerate(["alpha", "beta", "gamma", "delta", "omega", "zeta"]))
    base = ["validate", "-r", "{DIR}/r.guard", "-d", "{DIR}/t.json"]
    out.append({"kind": "validate", "files": {"r.guard": many_fail, "t.json": json.dumps(clash_d), "p.json": json.dumps(clash_p)},
                "modes": [("clash-plain", "plain", base + ["-i", "{DIR}/p.json", "-S", "all"]),
                          ("clash-s-json", "bytes", base + ["-i", "{DIR}/p.json", "--structured", "-o", "json", "-S", "none"]),
                          ("s-junit", "junit", base + ["--structured", "-o", "junit", "-S", "none"]),
                          ("s-sarif", "bytes", base + ["--structured", "-o", "sarif", "-S", "none"]),
                          ("plain", "plain", base + ["-S", "all"]), ("o-json", "bytes", base + ["-o", "json", "-S", "none"])],
                "rules": many_fail, "data": json.dumps(clash_d)})
    # time stamps of every shape through parse_epoch: the result (a value or an error) must not depend on the time zone
    for k, stamp in enumerate(["2024-01-01T00:00:00Z", "2024-01-01T00:00:00", "2024-01-01 00:00:00", "2024-06-30T12:30:00+09:00",
                               "2024-01-01", "1700000000", "Mon, 01 Jan 2024 00:00:00 GMT"]):
        rules = "let ep = parse_epoch(t)\nrule e {\n%ep > 1000\n}\nrule f {\n%ep < 1704070000\n}\n"
        base = ["validate", "-r", "{DIR}/r.guard", "-d", "{DIR}/t.json"]
        modes = [("plain", "plain", base + ["-S", "all"]), ("s-json", "bytes", base + ["--structured", "-o", "json", "-S", "none"])]
        out.append({"kind": "validate", "files": {"r.guard": rules, "t.json": json.dumps({"t": stamp})}, "modes": modes,
                    "rules": rules, "data": json.dumps({"t": stamp})})
    # multi-line templates with several failing resources: the console reporter prints a source excerpt per failing
    # check, in the (hash) order of the resources - the excerpts must not depend on that order (fix 519a7b9)
    for k in range(3):
        nres = 3 + k
        lines = ["Resources:"]
        for j in range(nres):
            lines += ["  res%c%d:" % ("abcde"[j], j), "    Type: AWS::S3::Bucket", "    Properties:",
                      "      Size: %d" % (j + 1), "      Name: n%d" % j] + (["      Tags: []"] if (j + k) % 2 else [])
        if k == 2:
            lines = ["# leading comment", ""] + lines
        txt = "\n".join(lines) + "\n"
        rules = ("rule sz {\nResources.*.Properties.Size == 99\n}\n"
                 "rule nm {\nAWS::S3::Bucket {\nProperties.Name == 'zz'\nProperties.Tags !empty\n}\n}\n")
        base = ["validate", "-r", "{DIR}/r.guard", "-d", "{DIR}/t.yaml"]
        modes = [("plain", "plain", base + ["-S", "all"]), ("plain-none", "plain", base + ["-S", "none"]),
                 ("verbose", "plain", base + ["-S", "all", "-v"]),
                 ("cfn-plain", "plain", base + ["-S", "all", "-t", "CFNTemplate"]),
                 ("s-json", "bytes", base + ["--structured", "-o", "json", "-S", "none"])]
        out.append({"kind": "validate", "files": {"r.guard": rules, "t.yaml": txt}, "modes": modes, "rules": rules, "data": txt})
    return out


def run_C05(ctx):
    res = Result("generated rules x documents through validate (plain, verbose, print-json, -o json/yaml, structured json / "
                 "yaml / sarif / junit, directories with -a, CFN reporter), test (plain, verbose, json, yaml, junit, --dir), "
                 "parse-tree (default, -p, -y) and rulegen: every (scenario, mode) run in 5 FRESH processes of the real binary "
                 "(fresh hash seeds, 5 different environments: LANG / LC_ALL / TZ / HOME / COLUMNS / TERM / USER) and 5 times "
                 "inside ONE long-lived process that evaluates other scenarios in between; exit codes equal, structured output "
                 "byte-identical (JUnit modulo time=), console output identical as a multiset of lines; non-trivial = distinct "
                 "(scenario, mode) that evaluated and printed more than one line")
    import hashlib
    n = 420 if ctx.thorough() else 48
    reps = 8 if ctx.thorough() else 5
    scen = c05_scenarios(ctx, n)
    # fresh processes
    jobs, jown = [], []
    for si, s in enumerate(scen):
        for (mode, cmp_, argv) in s["modes"]:
            for r in range(reps):
                jobs.append({"argv": argv, "files": s["files"], "env_extra": C05_ENVS[r % len(C05_ENVS)]})
                jown.append((si, mode, r))
    fresh = dict(zip(jown, vlib.run_cli_many(jobs)))
    # one process, repeated with other work in between: request (r, j) goes to worker j % NPROC for every r
    flat = [(si, m) for si, s in enumerate(scen) for m in s["modes"]]
    pad = (-len(flat)) % vlib.NPROC
    reqs, rown = [], []
    for r in range(reps):
        for (si, (mode, cmp_, argv)) in flat:
            reqs.append({"id": len(reqs), "op": "cli", "argv": argv, "files": scen[si]["files"]})
            rown.append((si, mode, r))
        for _ in range(pad):
            reqs.append({"id": len(reqs), "op": "cli", "argv": ["parse-tree", "-r", "{DIR}/none.guard"], "files": {}})
            rown.append(None)
    inproc = {}
    for own, resp in zip(rown, ctx.hp.map(reqs)):
        if own is not None:
            rr = resp.get("result") or {}
            code = rr.get("code", "panic" if "panic" in rr else "?")
            inproc[own] = {"code": code, "stdout": resp.get("stdout", ""), "stderr": resp.get("stderr", ""),
                           "panic": rr.get("panic")}
    for si, s in enumerate(scen):
        for (mode, cmp_, argv) in s["modes"]:
            res.evaluations += 1
            res.stats["mode:%s/%s" % (s["kind"], mode)] += 1
            info = {"rules": s["rules"], "data": s["data"], "argv": argv, "files": s["files"], "mode": mode, "kind": s["kind"]}
            for where, table in (("fresh-process", fresh), ("in-process", inproc)):
                runs = [table[(si, mode, r)] for r in range(reps)]
                codes = {str(o["code"]) for o in runs}
                if len(codes) != 1:
                    res.judge_failures.append(dict(info, what="%s runs of `%s` exit with different codes %s" % (where, " ".join(argv[:1]) + "/" + mode, sorted(codes)),
                                                   where=where, **{"class": "c05-exit-%s-%s" % (s["kind"], mode)}))
                    continue
                for stream, c in (("stdout", cmp_), ("stderr", "plain")):
                    outs = [c05_norm(c, o[stream]) for o in runs]
                    if len(set(outs)) != 1:
                        a = outs[0]
                        b = next(x for x in outs if x != a)
                        la, lb = a.split("\n"), b.split("\n")
                        k = next((j for j in range(min(len(la), len(lb))) if la[j] != lb[j]), min(len(la), len(lb)))
                        res.judge_failures.append(dict(
                            info, where=where, stream=stream,
                            what="%s runs of %s/%s print different %s (%s comparison); first difference at line %d: %r vs %r" % (
                                where, s["kind"], mode, stream, "byte" if c != "plain" else "sorted-line", k,
                                la[k][:160] if k < len(la) else None, lb[k][:160] if k < len(lb) else None),
                            **{"class": "c05-%s-%s-%s" % (s["kind"], mode, stream)}))
                    elif c == "plain" and stream == "stdout" and len({o["stdout"] for o in runs}) != 1:
                        res.stats["plain-output-line-order-varies:%s/%s" % (s["kind"], mode)] += 1
            o0 = fresh[(si, mode, 0)]
            res.stats["exit:%s" % o0["code"]] += 1
            if o0["code"] in (0, 19, 7) and o0["stdout"].count("\n") > 1:
                res.nontrivial.add(hashlib.sha1((s["kind"] + mode + o0["stdout"]).encode()).hexdigest())
            if si < 3 and mode in ("s-json", "plain", "json"):
                res.add_sample({"kind": s["kind"], "mode": mode, "exit": o0["code"], "stdout_head": o0["stdout"][:200]})
    # the order of the data files must not change what is reported for each of them
    for si, s in enumerate(scen):
        ms = {m[0]: m for m in s["modes"]}
        if "plain-rev" in ms and "plain" in ms:
            a, b = fresh[(si, "plain", 0)], fresh[(si, "plain-rev", 0)]
            if a["code"] not in (0, 19) or b["code"] not in (0, 19):
                # an evaluation error aborts the run at the file that raises it: what was printed before legitimately
                # depends on the order
                res.stats["c05-data-order-skipped-error"] += 1
                continue
            res.stats["c05-data-order-compared"] += 1
            if str(a["code"]) != str(b["code"]) or c05_norm("plain", a["stdout"]) != c05_norm("plain", b["stdout"]):
                la, lb = c05_norm("plain", a["stdout"]).split("\n"), c05_norm("plain", b["stdout"]).split("\n")
                k = next((j for j in range(min(len(la), len(lb))) if la[j] != lb[j]), min(len(la), len(lb)))
                res.judge_failures.append({"rules": s["rules"], "data": s["data"], "argv": ms["plain-rev"][2], "files": s["files"],
                                           "mode": "plain-rev", "kind": s["kind"],
                                           "what": "validate reports differ when the data files are given in the opposite order: exit %s vs %s; first differing line %r vs %r" % (
                                               a["code"], b["code"], la[k][:160] if k < len(la) else None, lb[k][:160] if k < len(lb) else None),
                                           "class": "c05-data-order"})
    res.extra["repeats"] = {"fresh_processes": reps, "in_process": reps, "environments": C05_ENVS[:reps]}
    return res


register("C05", ["Guard.Properties.C05"], run_C05, needs_cli=True)


# =============================================================================== C08

C08_ADVERSARIAL = [
    # unary check on a literal variable / literal left-hand sides
    ("let v = 2\nrule r { %v exists\n%v is_string\n%v empty\n%v !empty }\n", {"a": 1}),
    ("let v = [1, 2]\nrule r { %v[*] is_int\nsome %v[0] == 1\n%v not empty <<m>> }\n", {"a": 1}),
    ("let v = {a: {b: 1}}\nrule r { %v.a.b == 1\n%v.a.c exists\n%v.a[ b == 1 ] !empty }\n", {"a": 1}),
    # substring bounds inside multi-byte characters, reversed and huge bounds
    ("rule r { substring(a, 1, 2) == 'x'\nsubstring(a, 0, 1) == 'x'\nsubstring(a, 3, 1) == 'x'\nsubstring(a, 0, 70000) == 'x' }\n", {"a": "éé😀"}),
    ("let s = substring(a, 1, 3)\nrule r { %s == 'é' }\n", {"a": "é😀é"}),
    # type-mismatched and empty function arguments
    ("rule r { join(a, b) == 'x'\nsubstring(a, b, c) == 'x'\nregex_replace(a, b, c) == 'x' }\n", {"a": [1, {"k": 1}], "b": {"z": 1}, "c": None}),
    ("rule r { join(a, nothere) == 'x' }\nrule s { substring(a, nothere, 2) == 'x' }\nrule t { regex_replace(a, '(', nothere) == 'x' }\n", {"a": ["x"]}),
    ("rule r { parse_int(a) == 1\nparse_float(a) == 1.0\nparse_char(a) == '1'\nparse_boolean(a) == true\njson_parse(a) == 1\nparse_epoch(a) == 1\nurl_decode(a) == 'x'\nto_upper(a) == 'X'\ncount(a) == 1 }\n",
     {"a": [None, True, 1, 1.5, "x", [1], {"k": 1}]}),
    ("rule r { json_parse(a) == 1 }\n", {"a": "{\"a\": [1, 2, {\"b\": 1e400}], \"c\": 18446744073709551616}"}),
    ("rule r { regex_replace(a, '(a', 'x') == 'x'\nregex_replace(a, '(?<n>a)\\\\k<n>', '${n}') == 'x'\na == /(?<=a+)b/ }\n", {"a": "aab"}),
    # chained filters, filters on scalars and maps, key filters
    ("rule r { a[ b == 1 ][ c == 2 ][ d exists ].e == 1\na[*][*][*] == 1\na[ keys == /x/ ][ keys == 'y' ] !empty\na[0][ x == 1 ] empty }\n", {"a": {"x": {"y": 1}, "b": 1}}),
    ("rule r { a[ this == 1 ] !empty\na[ b[ c[ d == 1 ] !empty ] !empty ] empty\na.*[ keys in ['x'] ] exists }\n", {"a": [1, [1], {"b": [{"c": [{"d": 1}]}]}]}),
    # self-referential and mutually recursive rules, parameterised rules with wrong arity
    ("rule r { r }\n", {"a": 1}),
    ("rule a when b { x == 1 }\nrule b when a { x == 1 }\n", {"x": 1}),
    ("rule p(x, y) { %x == %y }\nrule r { p(a) }\nrule s { p(a, b, c) }\nrule t { p(1, 'x') }\n", {"a": 1, "b": 1, "c": 1}),
    ("rule p(x) { p(%x) }\nrule r { p(a) }\n", {"a": 1}),
    # variable cycles, unresolved variables, variables shadowing
    ("let a = %b\nlet b = %a\nrule r { %a == 1 }\n", {"a": 1}),
    ("rule r { %nope == 1 }\n", {"a": 1}),
    ("let v = a\nrule r { let v = b\n%v == 1\nwhen %v exists { let v = c\n%v == 1 } }\n", {"a": 1, "b": 1, "c": 1}),
    # ranges, in, comparisons across types, regex against non-strings, empty lists / maps
    ("rule r { a in r[1, 2)\na in r(1.5, 2.5]\na in [r[0, 1], 'x', null]\na == /x/\na > 'x'\na <= null\na >= {k: 1}\na < [1] }\n", {"a": [1, 1.5, "x", None, {"k": 1}, [1]]}),
    ("rule r { a empty\nb empty\nc empty\nd empty\nsome a[*] == 1\na[*] == 1\nb.* == 1\nb[*] exists\na not in []\n[] in a }\n", {"a": [], "b": {}, "c": "", "d": None}),
    # type blocks and when blocks on odd documents
    ("rule r { AWS::S3::Bucket { Properties.a == 1 } }\n", {"Resources": [1, 2]}),
    ("rule r { AWS::S3::Bucket { Properties.a == 1 } }\n", {"Resources": {"x": {"Type": ["AWS::S3::Bucket"]}, "y": None, "z": {"Type": "AWS::S3::Bucket"}}}),
    ("rule r when a exists\nb !exists { when c == 1 { d == 1 } }\n", {"a": 1}),
    # custom messages, odd spellings
    ("rule r { a == 1 <<\nmulti\nline é 😀 >>\nb == 2 << >> }\n", {"a": 2, "b": 1}),
    ("rule r { this == 1\nthis.this == 1\nthis[*] == 1\n'a' == 1\n\"a\".b == 1\na.'b c'.\"d\" exists }\n", {"a": {"b c": {"d": 1}}}),
    ("rule r { a.b.c.d.e.f.g.h.i.j.k.l.m.n.o.p.q.r.s.t.u.v.w.x.y.z exists\na[0][1][2][3][4][5][6][7][8][9] exists }\n", {"a": {"b": 1}}),
    ("rule r { keys a == 'x'\nsome keys a[*] in ['k']\na[ keys == 'k' ].x exists }\n", {"a": {"k": {"x": 1}}}),
    ("rule r { now() > 0\nparse_epoch('2020-01-01T00:00:00Z') < now()\nparse_epoch(a) == 0 }\n", {"a": "not a date"}),
    # a regex whose evaluation fails at run time (backtrack limit of the regex engine)
    ("rule r { a == /^(?=a)(a+)+(a+)+(a+)+b$/\na != /^(?=a)(a+)+(a+)+b$/\nnot a == /^(?=a)(a+)+(a+)+c$/\nsome b[*] == /^(?=a)(a+)+(a+)+b$/\na in [/^(?=a)(a+)+(a+)+b$/, 'x'] }\n",
     {"a": "a" * 48 + "!", "b": ["x", "a" * 48 + "!"]}),
    # extreme indices (i32::MIN has no positive counterpart)
    ("rule r { a[-2147483648] exists\na.-2147483648 exists\na[2147483647] exists\na[-1] == 2\n%v[-2147483648] exists }\nlet v = [1, 2]\n", {"a": [1, 2]}),
    ("rule r { a[ keys == 'k' ][-2147483648] exists }\nlet k = a.k\nrule s { a[%k][-2147483648] exists\na.%k[-2147483648] exists }\n", {"a": {"k": "k", "x": [1]}}),
    ("rule r { count(a) == 2\ncount(b) == 0\ncount(nothere) == 0\ncount(a[*][*]) >= 0 }\n", {"a": [1, [2, 3]], "b": {}}),
]


def c08_nested(depth, kind):
    if kind == "json-list":
        return "[" * depth + "1" + "]" * depth
    if kind == "json-map":
        return '{"a":' * depth + "1" + "}" * depth
    if kind == "yaml-flow":
        return "{a: " * depth + "[1]" + "}" * depth
    return "".join("  " * i + "a:\n" for i in range(depth)) + "  " * depth + "- 1\n"


C08_INSERTS = ["é", "\u2028", "😀", "\x00", "\ufeff", "\r", "\t", "\x7f", "\u0301", "\U0001F1E6", "ß", "İ"]
C08_TOKENS = ["rule", "when", "let", "{", "}", "[", "]", "(", ")", "<<", ">>", "==", "!=", ":=", "=", "%", "%v", "*", ".", ",",
              "or", "OR", "|OR|", "not", "!", "some", "this", "keys", "in", "exists", "empty", "/", "'", '"', "#", "\\", "r[", "r(",
              "null", "1e999", "-", "0x10", "9223372036854775808", "::", "---", "&a", "*a", "!Ref", "!GetAtt", "!!binary", "? ", ": ", "- ",
              "|", ">", "<<:", "~", "true", "{{", "}}"]


def c08_mutate(rng, text, other):
    """byte/token mutation: truncation, deletion, duplication, splice, unicode / invalid-UTF-8 insertion"""
    b = text.encode("utf-8")
    k = rng.randrange(10)
    n = len(b)
    if n == 0:
        return rng.choice(C08_TOKENS).encode()
    i = rng.randrange(n)
    j = min(n, i + rng.choice([1, 1, 2, 5, 20, 100]))
    if k == 0:
        return b[:i]
    if k == 1:
        return b[:i] + b[j:]
    if k == 2:
        return b[:j] + b[i:j] * rng.choice([1, 2, 5]) + b[j:]
    if k == 3:
        o = other.encode("utf-8")
        oi = rng.randrange(len(o) + 1)
        return b[:i] + o[oi:oi + rng.choice([5, 20, 80])] + b[j if rng.random() < 0.5 else i:]
    if k == 4:
        return b[:i] + rng.choice(C08_INSERTS).encode("utf-8") + b[i:]
    if k == 5:
        return b[:i] + bytes([rng.choice([0xff, 0xc3, 0x80, 0xfe, 0xed, 0xa0, 0xf4, 0x90])]) + b[i:]
    if k == 6:
        return b[:i] + (" " + rng.choice(C08_TOKENS) + " ").encode() + b[i:]
    if k == 9:
        # a syntax error followed by a long run of multi-byte text (diagnostics that quote a window of the input
        # must not cut inside a character), at every alignment
        tail = rng.choice(["日本語の注釈", "é", "😀", "ßü"]) * rng.randrange(15, 120)
        return b[:i] + rng.choice([b" === ", b" ]] ", b" { ", b""]) + b"x" * rng.randrange(0, 4) + rng.choice(["# ", "", "\n# "]).encode() + tail.encode("utf-8") + b"\n" + b[i:]
    if k == 7:
        toks = text.split(" ")
        if len(toks) > 2:
            a, c = rng.randrange(len(toks)), rng.randrange(len(toks))
            toks[a], toks[c] = toks[c], toks[a]
        return " ".join(toks).encode()
    bb = bytearray(b)
    bb[i] = rng.randrange(256)
    return bytes(bb)


def c08_wire(content):
    """file content for the harness (`bytes_of`): text when it is UTF-8 that JSON can carry, hex otherwise"""
    if isinstance(content, str):
        return content
    try:
        s = content.decode("utf-8")
        if "\x00" not in s:
            return s
    except UnicodeDecodeError:
        pass
    return {"hex": content.hex()}


C08_EXIT_DOC = {"validate": {0, 19, 5, 255}, "test": {0, 7, 1, 255}, "parse-tree": {0, 5, 255}, "rulegen": {0, 1, 255}}


def c08_param_recursion(rules):
    """does some parameterised rule call itself, directly or through other parameterised rules?"""
    import re as _re
    defs = [(m.group(1), m.start()) for m in _re.finditer(r"^\s*rule\s+(\w+)\s*\(", rules, _re.M)]
    tops = sorted(m.start() for m in _re.finditer(r"^\s*rule\s", rules, _re.M)) + [len(rules)]
    names = {n for n, _ in defs}
    calls = {}
    for n, st in defs:
        end = min(t for t in tops if t > st)
        hdr = rules.index("{", st) if "{" in rules[st:end] else st
        body = rules[hdr:end]
        calls.setdefault(n, set()).update(c for c in names if _re.search(r"\b%s\s*\(" % _re.escape(c), body))
    def reach(a, seen):
        for b in calls.get(a, ()):
            if b in seen:
                continue
            seen.add(b)
            reach(b, seen)
        return seen
    return any(n in reach(n, set()) for n in names)


C08_NESTED_FILTER_PROBE = "rule r { " + "a[ " * 24 + "b == 1" + " ] !empty" * 24 + " }\n"


def c08_panic_class(cmd, text):
    import re as _re
    m = _re.search(r"panicked at ([^\n:]+:\d+)", text or "")
    if m and "commands/reporters/validate/tf.rs" in m.group(1):
        return "c08-tf-console-reporter"        # one site: the Terraform-plan console renderer (F-C08-3)
    if m:
        return "c08-panic-%s" % m.group(1).replace("guard/src/", "")
    return "c08-panic-%s-%s" % (cmd, _re.sub(r"[^a-zA-Z]+", "-", (text or "")[:50]).strip("-"))


def run_C08(ctx):
    res = Result("(A) parser-accepted programs (random + a list of adversarial ones: unary checks on literal variables, substring "
                 "bounds inside multi-byte characters, type-mismatched / empty function arguments, chained filters, self-referential "
                 "rules, wrong arities, variable cycles) x documents through run_checks in verbose and report mode under catch_unwind, "
                 "compared with the total Lean model; (B) grammar-generated then byte/token-MUTATED rule files, data files (JSON, YAML), "
                 "test files, payloads and input-parameter files, plus nesting to depth 60, through validate / test / parse-tree / rulegen "
                 "in-process (catch_unwind, 20 s timeout) and in the real binary (signals, exit status, 30 s timeout); (C) every mutated "
                 "rules file the library parser rejects must give exit 5 / 1 / 255 with a message naming line and column and no rule "
                 "result; non-trivial = distinct mutated input that reached a diagnostic or an evaluation")
    import re as _re
    import yaml as _yaml
    rng = random.Random(ctx.seed * 811 + 8)
    # ---------------------------------------------------------------- (A)
    nA = 6000 if ctx.thorough() else 500
    cases = [{"rules": r, "data": json.dumps(d)} for r, d in C08_ADVERSARIAL] + load_corpus(ctx.prop) + random_cases(ctx.seed + 8, nA)
    results = vlib.correspond(cases, ctx.hp, ctx.mp, detail=True)
    absorb(res, results, "evaluator (no-crash stream)")
    for r in results:
        impl = r.get("impl") or {}
        if impl.get("kind") == "panic":
            res.judge_failures.append({"what": "run_checks panicked: %s" % impl.get("msg"), "rules": r["case"]["rules"], "data": r["case"]["data"],
                                       "class": c08_panic_class("run_checks", impl.get("msg"))})
    rreqs = [{"id": i, "op": "case", "rules": c["rules"], "data": c["data"], "verbose": False, "report": True} for i, c in enumerate(cases)]
    for c, r in zip(cases, ctx.hp.map(rreqs, timeout=30)):
        res.evaluations += 1
        if "died" in r:
            rec = c08_param_recursion(c["rules"])
            res.judge_failures.append({"what": "process died in run_checks report mode (%s)%s" % (r["died"], ": a parameterised rule calls itself" if rec else ""),
                                       "rules": c["rules"], "data": c["data"],
                                       "class": "c08-param-rule-recursion" if rec else "c08-died-run_checks-%s" % r["died"]})
            continue
        for part in ("ast", "doc", "report"):
            if isinstance(r.get(part), dict) and "panic" in r[part]:
                res.judge_failures.append({"what": "%s panicked: %s" % (part, r[part]["panic"][:200]), "rules": c["rules"], "data": c["data"],
                                           "class": c08_panic_class(part, r[part]["panic"])})
        res.stats["report-mode:" + ("ok" if "ok" in (r.get("report") or {}) or "ok_text" in (r.get("report") or {}) else "err")] += 1
    # ---------------------------------------------------------------- (B) mutated inputs
    nB = 9000 if ctx.thorough() else 900
    scen = []
    for i in range(nB):
        g = gen.G(ctx.seed * 2900017 + i)
        cfn = rng.random() < 0.3
        doc = g.cfn_doc() if cfn else g.doc()
        rules = g.rules_file(doc, depth=2, cfn=cfn)
        fmt = rng.choice(["json", "json", "yaml-block", "yaml-flow"])
        data = json.dumps(doc) if fmt == "json" else _yaml.safe_dump(doc, default_flow_style=(fmt == "yaml-flow"), allow_unicode=True)
        other = gen.G(ctx.seed * 31 + i).rules_file(doc, depth=1) if rng.random() < 0.5 else data
        kind = rng.choice(["v-rules", "v-rules", "v-data", "v-data", "v-both", "v-params", "v-payload", "t-rules", "t-tests", "pt", "rulegen", "nest", "cfn-odd", "cfn-odd", "trivial-doc", "tf-odd", "ext-odd"])
        if i < 3:
            kind = "tf-odd"          # the Terraform-plan console reporter always gets its canonical inputs (F-C08-3)
        mut = lambda t: c08_mutate(rng, t, other) if rng.random() < 0.8 else c08_mutate(rng, c08_mutate(rng, t, other).decode("utf-8", "replace"), other)
        s = {"kind": kind, "rules_text": rules, "data_text": data}
        sflags = ["--structured", "-o", rng.choice(["json", "yaml", "sarif", "junit"]), "-S", "none"] if rng.random() < 0.5 else \
                 ["-S", "all"] + (["-v"] if rng.random() < 0.3 else []) + (["-p"] if rng.random() < 0.2 else [])
        if kind in ("v-rules", "v-data", "v-both"):
            r_ = mut(rules) if kind != "v-data" else rules
            d_ = mut(data) if kind != "v-rules" else data
            s.update(cmd="validate", files={"r.guard": r_, "d.yaml": d_}, argv=["validate", "-r", "{DIR}/r.guard", "-d", "{DIR}/d.yaml"] + sflags,
                     mutated_rules=r_ if kind != "v-data" else None)
        elif kind == "v-params":
            s.update(cmd="validate", files={"r.guard": rules, "d.yaml": data, "p.yaml": mut(data)},
                     argv=["validate", "-r", "{DIR}/r.guard", "-d", "{DIR}/d.yaml", "-i", "{DIR}/p.yaml"] + sflags)
        elif kind == "v-payload":
            payload = json.dumps({"rules": [rules], "data": [data]})
            s.update(cmd="validate", files={}, stdin=mut(payload), argv=["validate", "--payload"] + sflags)
        elif kind in ("t-rules", "t-tests"):
            # expectations of every spelling (only PASS / FAIL / SKIP are statuses), rule names that do not exist, odd shapes
            ev_ = lambda: rng.choice(["PASS", "FAIL", "SKIP", "PASS", "FAIL", "PASSED", "pass", "", "Ok", 1, None, True, ["PASS"]])
            names_ = _re.findall(r"^rule (\w+)", rules, _re.M)[:3] or ["r0"]
            tests = json.dumps([{"name": "c", "input": doc, "expectations": {"rules": dict([(nm_, ev_()) for nm_ in names_] + [("nope", "FAIL")])}},
                                {"name": "c2", "input": doc, "expectations": {"rules": {names_[0]: ev_()}}}])
            if rng.random() < 0.5:
                tests = _yaml.safe_dump(json.loads(tests))
            r_ = mut(rules) if kind == "t-rules" else rules
            s.update(cmd="test", files={"r.guard": r_, "t.yaml": mut(tests) if kind == "t-tests" else tests},
                     argv=["test", "-r", "{DIR}/r.guard", "-t", "{DIR}/t.yaml"] + rng.choice([[], ["-v"], ["-o", "json"], ["-o", "junit"], ["-o", "yaml"]]),
                     mutated_rules=r_ if kind == "t-rules" else None)
        elif kind == "pt":
            r_ = mut(rules)
            s.update(cmd="parse-tree", files={"r.guard": r_}, argv=["parse-tree", "-r", "{DIR}/r.guard"] + rng.choice([[], ["-p"], ["-y"]]), mutated_rules=r_)
        elif kind == "trivial-doc":
            # texts that contain no document at all, or nothing but markers and comments
            td = rng.choice(["# only a comment\n", "---\n", "--- # c\n...\n", "\n\n# c\n", "...\n", "%YAML 1.2\n---\n", "#", "--- \n--- \n", "---\n# c\n---\na: 1\n", "\ufeff# bom\n", "~\n", "# c\n{}\n"])
            which = rng.choice(["data", "params", "tests", "template"])
            if which == "data":
                s.update(cmd="validate", files={"r.guard": rules, "d.yaml": td}, argv=["validate", "-r", "{DIR}/r.guard", "-d", "{DIR}/d.yaml"] + sflags)
            elif which == "params":
                s.update(cmd="validate", files={"r.guard": rules, "d.yaml": data, "p.yaml": td}, argv=["validate", "-r", "{DIR}/r.guard", "-d", "{DIR}/d.yaml", "-i", "{DIR}/p.yaml"] + sflags)
            elif which == "tests":
                s.update(cmd="test", files={"r.guard": rules, "t.yaml": td}, argv=["test", "-r", "{DIR}/r.guard", "-t", "{DIR}/t.yaml"])
            else:
                s.update(cmd="rulegen", files={"t.yaml": td}, argv=["rulegen", "-t", "{DIR}/t.yaml"])
        elif kind == "ext-odd":
            # every supported file extension for rules (.guard, .ruleset) and data (.yaml .yml .json .jsn .template), files in
            # directories, rules that fail at FILE level (the implicit `default` rule) - through every output format
            rext = rng.choice([".ruleset", ".ruleset", ".guard"])
            dext = rng.choice([".yaml", ".yml", ".json", ".jsn", ".template"])
            body = "zz_nothere exists <<file level>>\nzz_other == 1 or zz_third is_string\n" + rules
            fmt_ = rng.choice([["--structured", "-o", "junit", "-S", "none"], ["--structured", "-o", "sarif", "-S", "none"], ["--structured", "-o", "json", "-S", "none"],
                               ["-o", "json"], ["-o", "yaml"], ["-S", "all"], ["-S", "all", "-v"], []])
            if rng.random() < 0.5:
                s.update(cmd="validate", files={"rr/policy" + rext: body, "dd/doc" + dext: data},
                         argv=["validate", "-r", "{DIR}/rr", "-d", "{DIR}/dd"] + fmt_)
            else:
                s.update(cmd="validate", files={"policy" + rext: body, "doc" + dext: data},
                         argv=["validate", "-r", "{DIR}/policy" + rext, "-d", "{DIR}/doc" + dext] + fmt_)
        elif kind == "tf-odd":
            # documents shaped like `terraform show -json` plans (top-level `resource_changes`): the console reporter has a
            # renderer of its own for them
            addrs = ["aws_s3_bucket.b", "nodot", "module.m.aws_x.y", "", 5, None, "a."]
            rcs = []
            for k_ in range(rng.choice([1, 2, 3])):
                rc = {"address": addrs[(i + k_) % len(addrs)] if i >= 3 else ["aws_s3_bucket.b", "nodot", "aws_s3_bucket.c"][i],
                      "type": "aws_s3_bucket", "change": {"after": {"acl": rng.choice(["public", "private"]), "tags": ["a", "b"], "n": k_}}}
                if rng.random() < 0.2:
                    rc.pop("address")
                if rng.random() < 0.2:
                    rc["change"] = rng.choice([{}, {"after": None}, None, 1])
                rcs.append(rc)
            d2 = {"resource_changes": rcs if rng.random() < 0.9 else {"k": rcs[0]}, "format_version": "1.0"}
            tf_rules = ["rule acl { resource_changes[*].change.after.acl == 'never' }\n",
                        "rule acl_in { resource_changes[*].change.after.acl in ['never', 'x'] <<m>> }\n",
                        "rule addr { resource_changes[*].address == 'zz'\nresource_changes[*].change.after.missing exists }\n",
                        "rule tags { resource_changes[*].change.after.tags[*] == 'a'\nresource_changes[*].change.after.n > 5\nformat_version == '2' }\n"]
            rr = (tf_rules[i] if i < 3 else "".join(rng.sample(tf_rules, rng.choice([1, 2, 3]))))
            s.update(cmd="validate", files={"r.guard": rr, "d.json": json.dumps(d2)},
                     argv=["validate", "-r", "{DIR}/r.guard", "-d", "{DIR}/d.json"] + (rng.choice([[], ["-S", "all"], ["-S", "all", "-v"], ["-o", "json"], ["--structured", "-o", "json", "-S", "none"]]) if i >= 3 else []))
        elif kind == "cfn-odd":
            # well-formed documents that are NOT well-formed templates: resources without a Type, with a Type or a
            # cdk path that is not a string, scalar resources - evaluated with rules that fail on them, console output
            d2 = g.cfn_doc()
            if not isinstance(d2.get("Resources"), dict) or not d2["Resources"]:
                d2["Resources"] = {"a": {"Type": "X", "Properties": {"Size": 2}}}
            for rn in list(d2["Resources"]):
                rv = d2["Resources"][rn]
                if not isinstance(rv, dict):
                    continue
                m_ = rng.randrange(7)
                if m_ == 0:
                    rv.pop("Type", None)
                elif m_ == 1:
                    rv["Type"] = rng.choice([5, None, ["AWS::S3::Bucket"], {"Ref": "x"}, True, 1.5])
                elif m_ == 2:
                    rv["Metadata"] = {"aws:cdk:path": rng.choice([7, None, ["a"], {"b": 1}])}
                elif m_ == 3:
                    d2["Resources"][rn] = rng.choice([1, "x", None, [rv]])
                elif m_ == 4:
                    rv.setdefault("Properties", {})["deep"] = {"Resources": {"inner": {"Properties": {"Size": 3}}}}
            if rng.random() < 0.5:
                d2[rng.choice(["Zed", "Resourcez", "a", "Z"])] = {"a": {"b": 1, "c": [1, {"d": 2}]}}
            msg = rng.choice(["", " << >>", " <<;>>", " << ; ; >>", " <<\n>>", " << ;x; >>", " <<é>>"])
            rules = rules + ("rule odd0 { Zed.a.b == 2%s\nResourcez.a.c[1].d == 3\nZ.a.c[*] == 9\na.a.b > 5 }\nrule oddm { Resources.*.Properties.Size == 'never'%s\nResources.*.Type == 'never'%s }\n" % (msg, msg, msg))
            rr = rules + "rule odd1 { Resources.*.Properties.Size == 'never' }\nrule odd2 { Resources.*.Properties.* exists\nResources.*.* != 'never-equal' <<m>>\nResources.*.Properties.deep.Resources.inner.Properties.Size == 0 }\n"
            s.update(cmd="validate", files={"r.guard": rr, "d.yaml": json.dumps(d2)},
                     argv=["validate", "-r", "{DIR}/r.guard", "-d", "{DIR}/d.yaml"] + rng.choice([[], ["-S", "all"], ["-S", "all", "-v"], ["-o", "json"], ["-o", "yaml"], ["-t", "CFNTemplate"]]))
        elif kind == "rulegen":
            t = json.dumps(c19_template(g, clean=False))
            if rng.random() < 0.3:
                t = _yaml.safe_dump(json.loads(t))
            s.update(cmd="rulegen", files={"t.yaml": mut(t)}, argv=["rulegen", "-t", "{DIR}/t.yaml"])
        else:
            depth = rng.choice([10, 30, 60])
            nd = c08_nested(depth, rng.choice(["json-list", "json-map", "yaml-flow", "yaml-block"]))
            nr = "rule r { " + "a[ " * min(depth, 7) + "b == 1" + " ] !empty" * min(depth, 7) + "\n" + "when a exists { " * min(depth, 40) + "a exists" + " }" * min(depth, 40) + " }\n"
            s.update(cmd="validate", files={"r.guard": nr if rng.random() < 0.5 else rules, "d.yaml": nd},
                     argv=["validate", "-r", "{DIR}/r.guard", "-d", "{DIR}/d.yaml"] + sflags)
        scen.append(s)
    reqs = [{"id": i, "op": "cli", "argv": s["argv"], "files": {k: c08_wire(v) for k, v in s["files"].items()},
             "stdin": c08_wire(s.get("stdin", b""))} for i, s in enumerate(scen)]
    inproc = ctx.hp.map(reqs, timeout=20)
    real_idx = [i for i in range(len(scen)) if i % (2 if ctx.thorough() else 3) == 0 or "died" in inproc[i]]
    real = dict(zip(real_idx, vlib.run_cli_many([{"argv": scen[i]["argv"], "files": scen[i]["files"], "stdin": scen[i].get("stdin", b""),
                                                  "timeout": 30} for i in real_idx])))
    # nested-filter parse time (known finding F-C08-2 on the pinned tree): one probe, real binary, 20 s
    probe = vlib.run_cli(["parse-tree", "-r", "{DIR}/r.guard"], files={"r.guard": C08_NESTED_FILTER_PROBE}, timeout=20)
    res.evaluations += 1
    res.stats["nested-filter-probe:%s" % probe["code"]] += 1
    if probe["code"] == "timeout":
        res.judge_failures.append({"what": "parse-tree on a rule with 24 nested filters did not finish in 20 s (parse time doubles per nesting level)",
                                   "rules": C08_NESTED_FILTER_PROBE, "data": "", "class": "c08-nested-filter-parse-time"})
    elif probe["code"] not in (0,):
        res.judge_failures.append({"what": "parse-tree on a rule with 24 nested filters exits %s: %r" % (probe["code"], probe["stderr"][:200]),
                                   "rules": C08_NESTED_FILTER_PROBE, "data": "", "class": "c08-nested-filter-%s" % probe["code"]})
    # library verdict on every mutated rules text (which ones does the grammar reject?)
    lidx = [i for i, s in enumerate(scen) if s.get("mutated_rules") is not None]
    lreqs = []
    for i in lidx:
        try:
            lreqs.append({"id": i, "op": "case", "rules": scen[i]["mutated_rules"].decode("utf-8"), "data": "{}", "verbose": False})
        except UnicodeDecodeError:
            lreqs.append(None)
    lresp = {}
    live = [(i, q) for i, q in zip(lidx, lreqs) if q is not None]
    for (i, q), r in zip(live, ctx.hp.map([q for _, q in live], timeout=20)):
        lresp[i] = r
    for i, s in enumerate(scen):
        res.evaluations += 1
        res.stats["mutated:" + s["kind"]] += 1
        info = {"argv": s["argv"], "files": {k: (v if isinstance(v, str) else v.decode("utf-8", "backslashreplace")) for k, v in s["files"].items()},
                "files_hex": {k: v.hex() for k, v in s["files"].items() if not isinstance(v, str)},
                "stdin_hex": s["stdin"].hex() if isinstance(s.get("stdin"), bytes) else None,
                "rules": s["rules_text"], "data": s["data_text"], "kind": s["kind"]}
        r = inproc[i]
        if r.get("died") == 1 and s["cmd"] == "rulegen" and real[i]["code"] == 1 and (real[i]["stderr"] + real[i]["stdout"]).strip() \
                and "panicked" not in real[i]["stderr"]:
            # rulegen reports an unreadable template with a message and process::exit(1) from inside the library
            res.stats["exit:rulegen:1(process::exit)"] += 1
            res.nontrivial.add(vlib.sha(json.dumps(info["files"], sort_keys=True)))
            continue
        if "died" in r:
            res.judge_failures.append(dict(info, what="in-process %s did not return: %s" % (s["cmd"], r["died"]), **{"class": "c08-died-%s-%s" % (s["cmd"], r["died"])}))
            continue
        rr = r.get("result") or {}
        if "panic" in rr:
            res.judge_failures.append(dict(info, what="%s panicked: %s" % (s["cmd"], rr["panic"][:200]), **{"class": c08_panic_class(s["cmd"], rr["panic"])}))
            continue
        code = rr.get("code")
        res.stats["exit:%s:%s" % (s["cmd"], code)] += 1
        if "clap" in rr:
            res.stats["clap-rejected"] += 1
        elif code not in C08_EXIT_DOC[s["cmd"]]:
            res.judge_failures.append(dict(info, what="%s returned the undocumented exit code %s" % (s["cmd"], code), **{"class": "c08-exit-%s-%s" % (s["cmd"], code)}))
        if i in real:
            o = real[i]
            oc = o["code"]
            if oc == "timeout" or (isinstance(oc, str) and oc.startswith("signal")) or oc == 101 or "panicked at" in o["stderr"]:
                res.judge_failures.append(dict(info, what="real binary: %s ended with %s; stderr %r" % (s["cmd"], oc, o["stderr"][:300]),
                                               **{"class": c08_panic_class(s["cmd"], o["stderr"]) if oc == 101 or "panicked at" in o["stderr"] else "c08-process-%s-%s" % (s["cmd"], oc)}))
            elif "clap" not in rr and oc != (code if code is not None and code >= 0 else 255) and not (code == -1 and oc == 255):
                res.judge_failures.append(dict(info, what="real binary exits %s, in-process execute returned %s" % (oc, code), **{"class": "c08-exit-mismatch-%s" % s["cmd"]}))
        text = (r.get("stdout", "") + r.get("stderr", ""))
        if code in (0, 19, 7) or text.strip():
            res.nontrivial.add(vlib.sha(json.dumps(info["files"], sort_keys=True) + str(info["stdin_hex"])))
        # (C) grammar-rejected rules files
        lr = lresp.get(i)
        if lr is not None and "died" not in lr:
            ast = lr.get("ast") or {}
            if "panic" in ast:
                res.judge_failures.append(dict(info, what="parser panicked: %s" % ast["panic"][:200], **{"class": c08_panic_class("parser", ast["panic"])}))
            elif ast.get("err") == "ParseError":
                res.stats["grammar-rejected:" + s["cmd"]] += 1
                want = {"validate": (5,), "test": (1,), "parse-tree": (255, -1, 5)}[s["cmd"]]
                msg = ast.get("msg", "")
                if not _re.search(r"at line \d+ at column \d+", msg):
                    res.judge_failures.append(dict(info, what="library parse error names no line and column: %r" % msg[:200], **{"class": "c08-parse-nolinecol-lib"}))
                # the data file may itself be broken only in v-both; then either diagnostic is acceptable
                if s["kind"] != "v-both":
                    if code not in want:
                        res.judge_failures.append(dict(info, what="rules file rejected by the grammar but %s exits %s" % (s["cmd"], code), **{"class": "c08-parse-exit-%s" % s["cmd"]}))
                    elif not _re.search(r"at line \d+ at column \d+", text + str(rr.get("msg", ""))):
                        res.judge_failures.append(dict(info, what="%s reports the parse error without line and column: %r" % (s["cmd"], (text + str(rr.get("msg", "")))[:200]),
                                                       **{"class": "c08-parse-nolinecol-%s" % s["cmd"]}))
                    if s["cmd"] == "validate" and "--structured" in s["argv"] and "json" in s["argv"]:
                        try:
                            rep = json.loads(r.get("stdout", ""))
                            if any(fr.get("compliant") or fr.get("not_compliant") or fr.get("not_applicable") for fr in rep):
                                res.judge_failures.append(dict(info, what="rules of a file rejected by the grammar were evaluated: %r" % r.get("stdout", "")[:300],
                                                               **{"class": "c08-parse-evaluated"}))
                        except Exception:
                            pass
            elif "ok" in ast:
                res.stats["mutant-still-parses:" + s["cmd"]] += 1
            else:
                res.stats["mutant-other-error:%s" % ast.get("err")] += 1
        if i < 4:
            res.add_sample({"kind": s["kind"], "argv": s["argv"], "exit": code, "out_head": text[:160]})
    return res


register("C08", ["Guard.Properties.C08", "Guard.Properties.C08Eval"], run_C08, needs_cli=True)


# =============================================================================== C10

C10_FUNCS = ("count", "to_upper", "to_lower", "parse_int", "parse_string", "parse_boolean", "parse_float", "parse_char",
             "json_parse", "url_decode", "join", "substring", "regex_replace", "now", "parse_epoch")


def c10_literal_lets(rules):
    """does the file bind a variable to a LITERAL (whose values have paths of their own, not document paths)?"""
    import re as _re
    if _re.search(r"^\s*rule\s+\w+\s*\(", rules, _re.M):
        return True          # parameterised rules can be called with literal arguments (paths of their own)
    for m in _re.finditer(r"\blet\s+\w+\s*:?=\s*(\S+)", rules):
        t = m.group(1)
        if not _re.match(r"[A-Za-z_%]", t) or _re.match(r"(?i)(true|false|null)\b", t) or _re.match(r"r[\[(]", t):
            return True
    return False


def c10_pairs(j, acc, where=""):
    """every {path, value} object of a structured report, with the field it sits in"""
    if isinstance(j, dict):
        if set(j.keys()) == {"path", "value"}:
            acc.append((where, j["path"], j["value"]))
            return
        for k, v in j.items():
            c10_pairs(v, acc, k if k in ("from", "to", "traversed_to") else where)
    elif isinstance(j, list):
        for v in j:
            c10_pairs(v, acc, where)


def c10_unresolved(j, acc):
    if isinstance(j, dict):
        if "traversed_to" in j and "remaining_query" in j:
            acc.append(j)
        for v in j.values():
            c10_unresolved(v, acc)
    elif isinstance(j, list):
        for v in j:
            c10_unresolved(v, acc)


def c10_strings(j, acc):
    if isinstance(j, str):
        acc.append(j)
    elif isinstance(j, dict):
        for v in j.values():
            c10_strings(v, acc)
    elif isinstance(j, list):
        for v in j:
            c10_strings(v, acc)


def c10_same(a, b):
    if isinstance(a, dict):
        return isinstance(b, dict) and set(a) == set(b) and all(c10_same(a[k], b[k]) for k in a)
    if isinstance(a, list):
        return isinstance(b, list) and len(a) == len(b) and all(c10_same(x, y) for x, y in zip(a, b))
    if isinstance(a, bool) or isinstance(b, bool) or a is None or b is None:
        return a is b
    if isinstance(a, (int, float)) and isinstance(b, (int, float)):
        return a == b
    return a == b and type(a) == type(b)


def run_C10(ctx):
    import emit as _emit
    import re as _re
    res = Result("generated function-free rule files x documents (keys without '/'), each document serialised as JSON, flow YAML and "
                 "block YAML with randomised layout (indentation, line breaks, comments, quoting), real evaluator in-process "
                 "(validate --structured -o json): every reported {path, value} under from / traversed_to (and under to when its "
                 "path is non-empty) must resolve in the document to exactly that value; for every unresolved check the reached "
                 "value is in the document and the next queried segment is not; every `Path=<p>[L:l,C:c]` of a scalar must be the "
                 "position PyYAML's composer gives that scalar in the data file text; documents with an empty-string key whose "
                 "children are named like its siblings, multi-line strings, and numbers at the float boundary (1e999, inf: any "
                 "report produced must show the number); evaluator correspondence with the Lean model "
                 "on the same inputs; non-trivial = (rules, document, layout) with at least one reported path")
    n = 2600 if ctx.thorough() else 260
    rng = random.Random(ctx.seed * 1013 + 10)
    scen = []
    for i in range(n):
        g = gen.G(ctx.seed * 3100019 + i, core=(i % 3 != 0))
        cfn = rng.random() < 0.25
        doc = g.cfn_doc() if cfn else g.doc(depth=rng.choice([2, 3, 4]))
        if not isinstance(doc, dict) or not doc:
            continue
        if i % 2 == 0:
            doc["zl"] = [g.ch([1, 2, 10, "a", "b", "x y"]) for _ in range(g.ch([2, 3, 4]))]
        if i % 3 == 1:
            # multi-line strings (block scalars in the block layout): the reported value is the text with its line breaks
            doc["znotes"] = {"text": g.ch(["line one\nline two\n", "a\nb", "one\n", "x: y\n# not a comment\n"]), "n": 1}
        if i % 4 == 2:
            # an entry whose key is the EMPTY string, with siblings named like its children: its pointer is "<parent>/"
            # and everything below it "<parent>//child"
            doc["zlim"] = {"": {"size": 40, "owner": {"id": 7}, "tags": ["p", "q"]}, "size": 5, "owner": {"name": "x"}, "tags": ["r"]}
        rules = g.rules_file(doc, depth=2, cfn=cfn)
        if "zl" in doc:
            # a FAILING comparison of the (unsorted) data list with list literals: the reported value is the list as it is
            rules += "rule zlist_eq {\nzl == [\"zz-never\", 1]\nzl != %s\n}\n" % g.lit_of(doc["zl"])
        if "zlim" in doc:
            rules += "rule zempty {\nzlim.*.size <= 10\nzlim.*.owner.name exists\nzlim.*.tags[*] == \"r\"\n}\n"
        if "znotes" in doc:
            rules += "rule ztext {\nznotes.text == \"never-equal-zz\"\nznotes.text.zzmissing exists\n}\n"
        if any(_re.search(r"\b%s\s*\(" % f, rules) for f in C10_FUNCS):
            rules = "\n".join(l for l in rules.split("\n") if not any(_re.search(r"\b%s\s*\(" % f, l) for f in C10_FUNCS)) + "\n"
        # directed clauses: a file-level variable over the first key, and a list-valued key tested with `in`
        k0 = next((k for k in doc if _re.fullmatch(r"[A-Za-z][A-Za-z0-9]*", k)), None)
        if k0 is not None and not c10_literal_lets(rules):
            rules = "let zfile = %s\n" % k0 + rules + "rule zvar {\n%zfile == \"never-equal-zz\"\n%zfile.zzmissing exists\n}\n"
            for lk, lv in doc.items():
                if isinstance(lv, list) and len(lv) >= 2 and all(isinstance(e, (str, int)) and not isinstance(e, bool) for e in lv) \
                        and _re.fullmatch(r"[A-Za-z][A-Za-z0-9]*", lk):
                    rules += "rule zin {\n%s in [%s, \"zz-never\"]\n}\n" % (lk, g.lit_of(lv[0]))
                    break
        for style in ("json", "flow", "block"):
            try:
                text, pos = _emit.self_check(random.Random(ctx.seed * 17 + i * 3 + len(style)), doc, style)
            except Exception as e:
                res.stats["emitter-self-check-failed"] += 1
                continue
            scen.append({"rules": rules, "doc": doc, "style": style, "text": text, "pos": pos, "lit": c10_literal_lets(rules)})
    # numbers at the float boundary (overflowing literals, YAML inf / nan spellings): if a report is produced at all, the
    # value it shows for the path is that number (the unchanged tree refuses to serialise them: exit 255, nothing to judge)
    inf, nan_rules = float("inf"), "rule zq {\nzq.max < 100\nzq.min > 0\nzq.burst is_null\nzq.deep[*].v == 1\nzq.zzmissing exists\n}\n"
    for txt in ('{"zq": {"max": 1e999, "min": -1e999, "burst": 1e999, "deep": [{"v": 1e999}], "n": 1}}',
                "zq:\n  max: 1e999\n  min: -1e999\n  burst: 1e999\n  deep:\n  - v: 1e999\n  n: 1\n",
                "zq: {max: inf, min: -inf, burst: inf, deep: [{v: inf}], n: 1}\n"):
        scen.append({"rules": nan_rules, "doc": {"zq": {"max": inf, "min": -inf, "burst": inf, "deep": [{"v": inf}], "n": 1}},
                     "style": "nonfinite", "text": txt, "pos": {}, "lit": False, "no_model": True})
    reqs = [{"id": i, "op": "cli", "argv": ["validate", "-r", "{DIR}/r.guard", "-d", "{DIR}/d.yaml", "--structured", "-o", "json", "-S", "none"],
             "files": {"r.guard": s["rules"], "d.yaml": s["text"]}} for i, s in enumerate(scen)]
    outs = ctx.hp.map(reqs, timeout=60)
    # two data files in one run: every report must point into ITS document
    pairs2, reqs2 = [], []
    for i in range(0, len(scen) - 1, 2):
        a = scen[i]
        k0 = next((k for k in a["doc"] if _re.fullmatch(r"[A-Za-z][A-Za-z0-9]*", k)), None)
        if k0 is None:
            continue
        g2 = gen.G(ctx.seed * 71 + i)
        doc2 = dict(a["doc"])
        doc2[k0] = g2.value(2)
        try:
            text2, pos2 = _emit.self_check(random.Random(ctx.seed * 19 + i), doc2, a["style"])
        except Exception:
            continue
        b = {"rules": a["rules"], "doc": doc2, "style": a["style"], "text": text2, "pos": pos2, "lit": a["lit"]}
        order = [a, b] if i % 4 == 0 else [b, a]
        reqs2.append({"id": len(reqs2), "op": "cli", "argv": ["validate", "-r", "{DIR}/r.guard", "-d", "{DIR}/d0.yaml", "-d", "{DIR}/d1.yaml",
                                                               "--structured", "-o", "json", "-S", "none"],
                      "files": {"r.guard": a["rules"], "d0.yaml": order[0]["text"], "d1.yaml": order[1]["text"]}})
        pairs2.append(order)
    extra = []
    for order, r in zip(pairs2, ctx.hp.map(reqs2, timeout=60)):
        code = (r.get("result") or {}).get("code")
        if "died" in r or code not in (0, 19):
            continue
        try:
            reps = json.loads(r["stdout"])
        except Exception:
            continue
        for rep in reps:
            nm = os.path.basename(rep.get("name", ""))
            if nm in ("d0.yaml", "d1.yaml"):
                sc = dict(order[int(nm[1])], two_files=True)
                extra.append((sc, {"result": {"code": code}, "stdout": json.dumps([rep])}))
    for s, r in list(zip(scen, outs)) + extra:
        res.evaluations += 1
        res.stats["style:" + s["style"] + ("/two-data-files" if s.get("two_files") else "")] += 1
        info = {"rules": s["rules"], "data": s["text"], "doc": s["doc"], "style": s["style"]}
        if "died" in r or "panic" in (r.get("result") or {}):
            res.judge_failures.append(dict(info, what="validate did not return (%s)" % (r.get("died") or r["result"]["panic"][:100]), **{"class": "c10-crash"}))
            continue
        code = (r.get("result") or {}).get("code")
        res.stats["exit:%s" % code] += 1
        if code not in (0, 19):
            continue
        try:
            rep = json.loads(r["stdout"])
        except Exception:
            res.stats["unparsable-report"] += 1
            continue
        pairs, unres, strs = [], [], []
        c10_pairs(rep, pairs)
        c10_unresolved(rep, unres)
        c10_strings(rep, strs)
        if pairs:
            res.nontrivial.add(vlib.sha(s["rules"] + "\0" + s["text"]))
        for where, path, value in pairs:
            res.stats["pair:" + (where or "?")] += 1
            if path == "" and not c10_same(value, s["doc"]):
                # a literal (rule text), not a document value
                res.stats["pair-literal:" + where] += 1
                if where in ("from", "traversed_to") and not s["lit"] and where != "from":
                    res.judge_failures.append(dict(info, what="%s has the empty path but its value is not the document: %r" % (where, value), **{"class": "c10-empty-path-" + where}))
                continue
            if s["lit"]:
                res.stats["pair-skipped-literal-lets"] += 1
                continue
            try:
                got = _emit.resolve(s["doc"], path)
            except Exception as e:
                if where == "to":
                    res.stats["to-not-in-doc(literal element)"] += 1
                    continue
                res.judge_failures.append(dict(info, what="reported %s path %r does not resolve in the document (%s)" % (where, path, type(e).__name__), **{"class": "c10-unresolvable-" + where}))
                continue
            if not c10_same(got, value):
                if where == "to":
                    res.stats["to-differs(literal element)"] += 1
                    continue
                res.judge_failures.append(dict(info, what="reported %s path %r resolves to %r but the report says %r" % (where, path, got, value), **{"class": "c10-wrong-value-" + where}))
        if not s["lit"]:
            for u in unres:
                res.stats["unresolved"] += 1
                tp = u["traversed_to"]["path"]
                try:
                    at = _emit.resolve(s["doc"], tp)
                except Exception:
                    continue      # reported above
                rq = u.get("remaining_query") or ""
                m = _re.match(r"^(?:\[)?([^.\[\]]+)", rq)
                if not m:
                    res.stats["unresolved-next:other"] += 1
                    continue
                seg = m.group(1).strip("'\"")
                if seg in ("*",):
                    bad = (isinstance(at, (dict, list)) and len(at) > 0)
                    kind = "star"
                elif _re.fullmatch(r"-?\d+", seg) and isinstance(at, list):
                    bad = abs(int(seg)) < len(at)
                    kind = "index"
                elif seg.startswith("%") or seg == "this":
                    res.stats["unresolved-next:variable"] += 1
                    continue
                else:
                    bad = isinstance(at, dict) and seg in at
                    kind = "key"
                res.stats["unresolved-next:" + kind] += 1
                if bad:
                    res.judge_failures.append(dict(info, what="unresolved check says it stopped at %r before %r, but that segment exists there" % (tp, rq),
                                                   **{"class": "c10-unresolved-next-exists-" + kind}))
        # positions
        for t in strs:
            for m in _re.finditer(r"(?:Path=|\[|path )(/[^\[\] ]*)\[L:(\d+),C:(\d+)\]", t):
                p_, l_, c_ = m.group(1), int(m.group(2)), int(m.group(3))
                want = s["pos"].get(p_)
                if want is None:
                    # elements of a literal list / struct in the rule text carry paths of their own (/0, /k)
                    res.stats["position:path-not-in-doc(literal element)"] += 1
                    continue
                if want[2] != "scalar":
                    res.stats["position:non-scalar"] += 1
                    continue
                res.stats["position:scalar"] += 1
                if (l_, c_) != (want[0], want[1]) and not s["lit"]:
                    res.judge_failures.append(dict(info, what="scalar %r starts at line %d column %d of the data file but the report says L:%d,C:%d" % (p_, want[0], want[1], l_, c_),
                                                   **{"class": "c10-position-" + s["style"]}))
        if len(res.samples) < 4 and pairs:
            res.add_sample({"style": s["style"], "data_head": s["text"][:120], "first_pair": pairs[0][:2]})
    # correspondence with the model on the same rule files (JSON rendering of the document)
    seen, cases = set(), []
    for s in scen:
        if s.get("no_model"):
            continue
        k = vlib.sha(s["rules"] + json.dumps(s["doc"]))
        if k not in seen:
            seen.add(k)
            cases.append({"rules": s["rules"], "data": json.dumps(s["doc"])})
    results = vlib.correspond(cases[: (1500 if ctx.thorough() else 150)], ctx.hp, ctx.mp, detail=True)
    absorb(res, results, "evaluator (paths in canonical trees)")
    return res


register("C10", ["Guard.Properties.C10"], run_C10)
