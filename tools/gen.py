"""Generators: documents over a small universe, and rule texts generated type-directed against
a document (so that most clauses are NOT trivially unresolved).  All randomness comes from one
random.Random(seed): a (seed, index) pair replays a case exactly."""
import json, random

# keys that begin with a keyword of the language (or / not / in / some / when / keys / this) are ordinary keys
KEYS = ["a", "b", "c", "k", "Type", "origin", "Properties", "Resources", "Tags", "Key", "Value", "x-y", "camelKey",
        "notes", "ORDER", "inner", "somekey", "keys_x", "orb"]
STRS = ["", "a", "b", "ab", "A", "é", "1", "true", "null", "/a/", "AWS::S3::Bucket", "x y", "10"]
INTS = [-1, 0, 1, 2, 10, -9223372036854775808, 9223372036854775807]
FLOATS = [0.0, 1.5, 2.5, 1e308, 5e-324, 10.0]
REGEXES = ["a", "^a", "b$", "^$", "(?i)A", ".", "[0-9]+", "^AWS::"]


class G:
    def __init__(self, seed, core=False):
        self.r = random.Random(seed)
        self.core = core      # restrict to the documented core fragment (C01)

    def ch(self, xs):
        return xs[self.r.randrange(len(xs))]

    def p(self, x):
        return self.r.random() < x

    # ---------------------------------------------------------------- documents
    def scalar(self):
        k = self.r.randrange(10)
        if k < 3:
            return self.ch(STRS)
        if k < 6:
            return self.ch(INTS[:5]) if self.p(0.85) else self.ch(INTS)
        if k < 7:
            return self.ch(FLOATS)
        if k < 9:
            return self.ch([True, False])
        return None

    def value(self, depth):
        if depth <= 0 or self.p(0.35):
            return self.scalar()
        if self.p(0.5):
            n = self.ch([0, 1, 2, 2, 3])
            if self.p(0.5):
                # homogeneous list of maps (the shape filters are written for)
                keys = self.r.sample(KEYS[:7], self.ch([1, 2]))
                return [{k: self.value(depth - 2) for k in keys} for _ in range(n)]
            return [self.value(depth - 1) for _ in range(n)]
        n = self.ch([0, 1, 2, 3])
        keys = self.r.sample(KEYS, n)
        d = {k: self.value(depth - 1) for k in keys}
        if "camelKey" in d and self.p(0.4):
            # the same name in another spelling convention, with a value of its own
            d[self.ch(["CamelKey", "camel_key", "camel-key"])] = self.value(depth - 1)
        return d

    def doc(self, depth=3):
        n = self.ch([1, 2, 3, 4])
        keys = self.r.sample(KEYS[:6], min(n, 6))
        return {k: self.value(depth - 1) for k in keys}

    def cfn_doc(self):
        types = ["AWS::S3::Bucket", "AWS::EC2::Volume", "Custom::Thing"]
        res = {}
        for i in range(self.ch([0, 1, 2, 3])):
            props = {k: self.value(1) for k in self.r.sample(["Size", "Name", "Enc", "Tags", "a"], self.ch([0, 1, 2]))}
            res["r%d" % i] = {"Type": self.ch(types), "Properties": props}
        d = {"Resources": res}
        if self.p(0.3):
            d["a"] = self.scalar()
        if self.p(0.1):
            d = {k: v for k, v in d.items() if k != "Resources"}
        return d

    # ---------------------------------------------------------------- literals
    def lit_str(self, s):
        if "'" not in s and self.p(0.5):
            return "'" + s + "'"
        return '"' + s.replace('"', '\\"') + '"'

    def literal(self, like=None, depth=1):
        """a Guard value literal, often of the same type as `like`"""
        if like is not None and self.p(0.75):
            v = like
        else:
            v = self.value(depth) if self.p(0.2) else self.scalar()
        return self.lit_of(v)

    def lit_of(self, v):
        if v is None:
            return self.ch(["null", "NULL"])
        if isinstance(v, bool):
            return ("true" if v else "false") if self.p(0.8) else ("True" if v else "False")
        if isinstance(v, int):
            return str(v) if v != -9223372036854775808 else "-9223372036854775807"
        if isinstance(v, float):
            if v < 0:
                return "0.5"
            s = repr(v)
            if "e" in s and "e-" not in s and "e+" not in s:
                s = s.replace("e", "e+")
            return s if ("." in s or "e" in s) else s + ".0"
        if isinstance(v, str):
            if "\n" in v:
                return "'x'"
            return self.lit_str(v)
        if isinstance(v, list):
            return "[" + ", ".join(self.lit_of(x) for x in v) + "]"
        if isinstance(v, dict):
            return "{" + ", ".join(self.key_lit(k) + ": " + self.lit_of(x) for k, x in v.items()) + "}"
        return "null"

    def key_lit(self, k):
        if k.replace("-", "").replace("_", "").isalnum() and k and self.p(0.6):
            return k
        return '"' + k + '"'

    # ---------------------------------------------------------------- queries
    def key_part(self, k, first):
        if k == "camelKey" and self.p(0.3):
            # queried in another spelling convention (the evaluator falls back on case conversions)
            k = self.ch(["camel_key", "CamelKey", "camel-key", "Camel-Key"])
        simple = k.isalnum() and k[0].isalpha()
        if first:
            # a quoted first part would be read as a string literal on a right-hand side
            return k if simple else "this" + self.ch(['."%s"' % k, "['%s']" % k])
        if simple and self.p(0.85):
            return "." + k
        return self.ch(['."%s"' % k, ".'%s'" % k, "['%s']" % k, '["%s"]' % k])

    def walk(self, cur, vars_, depth, allow_filter=True):
        """returns (query text, sample value reached or None)"""
        parts = []
        first = True
        v = cur
        known = True
        if vars_ and self.p(0.25):
            name, val = self.ch(vars_)
            parts.append("%" + name)
            first = False
            v = val
            if isinstance(v, list) and v:
                v = v[0]
            if val is None:
                known = False
        steps = self.ch([1, 1, 2, 2, 3, 4]) if first else self.ch([0, 0, 1, 2])
        for _ in range(steps):
            if known and isinstance(v, dict) and v and not first and not self.core and self.p(0.12):
                # a filter on the KEYS of a struct
                k = self.ch(list(v.keys()))
                safe = k.replace("-", ".")
                form = self.ch(["keys == '%s'" % k, "keys == \"%s\"" % k, "keys in ['%s', 'zz']" % k, "keys == /^%s$/" % safe,
                                "keys not in ['%s']" % k, "keys == 'zz-none'", "keys != '%s'" % k, "keys == /./"])
                parts.append("[ " + self.kw(form.split(" ")[0]) + form[4:] + " ]")
                if form.startswith(("keys == '%s'" % k, "keys == \"", "keys in", "keys == /^")):
                    v = v[k]
                else:
                    known = False
            elif known and isinstance(v, dict) and v and self.p(0.8):
                r = self.r.random()
                if r < 0.7 or first:
                    k = self.ch(list(v.keys()))
                    parts.append(self.key_part(k, first))
                    v = v[k]
                elif r < 0.9:
                    parts.append(".*")
                    v = self.ch(list(v.values()))
                else:
                    parts.append("[*]")
            elif known and isinstance(v, list) and self.p(0.85):
                r = self.r.random()
                if first:
                    k = self.ch(KEYS[:4])
                    parts.append(k)
                    known = False
                elif r < 0.35:
                    parts.append("[*]")
                    v = v[0] if v else None
                    known = bool(v is not None)
                elif r < 0.5:
                    parts.append(".*")
                    v = v[0] if v else None
                    known = bool(v is not None)
                elif r < 0.7:
                    i = self.ch([0, 0, 1, 2] if self.core else [0, 0, 1, 2, -1])
                    parts.append(self.ch(["[%d]" % i, ".%d" % abs(i)]))
                    if 0 <= abs(i) < len(v):
                        v = v[abs(i)]
                    else:
                        known = False
                elif allow_filter and depth > 0:
                    elem = v[0] if v else {}
                    parts.append("[ " + self.cnf(elem, [], depth - 1, inline=True, maxlines=2) + " ]")
                    v = v[0] if v else None
                    known = bool(v is not None)
                else:
                    parts.append("[*]")
                    v = v[0] if v else None
                    known = bool(v is not None)
            else:
                r = self.r.random()
                if first or r < 0.55:
                    parts.append(self.key_part(self.ch(KEYS), first))
                elif r < 0.7:
                    parts.append(".*")
                elif r < 0.85:
                    parts.append("[*]")
                elif r < 0.93:
                    parts.append("[0]")
                elif allow_filter and depth > 0 and isinstance(v, dict) and parts and not parts[-1].startswith("["):
                    parts.append("[ " + self.cnf(v, [], depth - 1, inline=True, maxlines=1) + " ]")
                else:
                    parts.append("." + self.ch(KEYS[:4]))
                if not (isinstance(v, (dict, list))):
                    known = known and False
            first = False
        if not parts:
            parts = [self.ch(KEYS[:4])]
        if parts[0].startswith(".") or parts[0].startswith("["):
            parts.insert(0, "this")
        elif self.p(0.04):
            parts.insert(0, "this.")
            parts[1] = parts[1].lstrip(".")
        q = "".join(parts)
        return q, (v if known else None)

    # ---------------------------------------------------------------- clauses
    UNARY = ["exists", "empty", "is_string", "is_list", "is_struct", "is_bool", "is_int", "is_float", "is_null"]
    BINARY = ["==", "!=", ">", "<", ">=", "<=", "in", "not in"]

    def kw(self, s):
        return s.upper() if self.p(0.15) else s

    def access_clause(self, cur, vars_, depth, rules=()):
        q, sample = self.walk(cur, vars_, depth)
        some = self.kw("some") + " " if self.p(0.15) else ""
        neg = self.ch(["not ", "NOT ", "!"]) if self.p(0.15) else ""
        msg = " <<m%d>>" % self.r.randrange(5) if self.p(0.1) else ""
        if self.p(0.4):
            op = self.ch(self.UNARY)
            opnot = self.ch(["!", "not "]) if self.p(0.3) else ""
            return "%s%s%s %s%s%s" % (neg, some, q, opnot, self.kw(op), msg)
        op = self.ch(self.BINARY)
        r = self.r.random()
        if self.core:
            r = r * 0.7
        if r < 0.7:
            if op in ("in", "not in") and self.p(0.6):
                base = sample if not isinstance(sample, (list, dict)) else None
                items = [self.literal(base, 0) for _ in range(self.ch([1, 2, 3]))]
                rhs = "[" + ", ".join(items) + "]"
            elif op in ("in", "not in") and self.p(0.4):
                rhs = self.ch(["r[0,5]", "r(0,5)", "r[1,2)", "r(0,10]", "r[0.5,2.5]"])
            elif op in ("==", "!=") and self.p(0.15):
                rhs = "/" + self.ch(REGEXES) + "/"
            else:
                rhs = self.literal(sample)
        elif r < 0.9:
            rhs, _ = self.walk(cur, vars_, 0, allow_filter=False)
        else:
            rhs = self.func_call(cur, vars_)
        opt = self.kw(op) if op[0].isalpha() else op
        if op == "not in":
            opt = self.ch(["not in", "NOT IN", "!in", "not IN"])
        return "%s%s%s %s %s%s" % (neg, some, q, opt, rhs, msg)

    def func_call(self, cur, vars_):
        q, _ = self.walk(cur, vars_, 0, allow_filter=False)
        f = self.ch(["count", "to_upper", "to_lower", "parse_int", "parse_string", "parse_boolean",
                     "parse_float", "parse_char", "json_parse", "url_decode", "join", "substring", "regex_replace"])
        if f == "join":
            return "join(%s, %s)" % (q, self.ch(['","', "'-'", '""']))
        if f == "substring":
            return "substring(%s, %d, %d)" % (q, self.ch([0, 0, 1]), self.ch([1, 2, 3, 70000]))
        if f == "regex_replace":
            return "regex_replace(%s, %s, %s)" % (q, self.ch(['"^(a)(.*)$"', '"(b)"', '"x"']), self.ch(['"${1}-${2}"', '"${1}"', '"z"']))
        return "%s(%s)" % (f, q)

    def clause(self, cur, vars_, depth, rules=(), prules=(), top=False):
        """`rules` (named-rule references) are only legal at the top level of a rule body, in
        the body of a rule-level `when` block and in `when` conditions."""
        r = self.r.random()
        if depth > 0 and r < 0.12:
            # query block
            q, sample = self.walk(cur, vars_, depth)
            some = self.kw("some") + " " if self.p(0.15) else ""
            ne = " !empty" if self.p(0.1) else ""
            inner = sample if isinstance(sample, dict) else (sample[0] if isinstance(sample, list) and sample and isinstance(sample[0], dict) else {})
            body = self.block_body(inner, vars_, depth - 1, (), prules)
            return "%s%s%s {\n%s\n}" % (some, q, ne, body)
        if depth > 0 and r < 0.18:
            conds = self.cnf(cur, vars_, 0, inline=True, maxlines=2, rules=rules, prules=prules, conds=True)
            body = self.block_body(cur, vars_, depth - 1, rules if top else (), prules, top=top)
            return "%s %s {\n%s\n}" % (self.kw("when"), conds, body)
        if rules and r < 0.26:
            neg = self.ch(["not ", "!"]) if self.p(0.25) else ""
            msg = " <<named>>" if self.p(0.1) else ""
            return neg + self.ch(list(rules)) + msg
        if prules and r < 0.31:
            name, arity = self.ch(list(prules))
            args = []
            for _ in range(arity):
                if self.p(0.5):
                    args.append(self.walk(cur, vars_, 0, allow_filter=False)[0])
                else:
                    args.append(self.literal(None, 0))
            neg = "not " if self.p(0.2) else ""
            return "%s%s(%s)" % (neg, name, ", ".join(args))
        return self.access_clause(cur, vars_, depth, rules)

    def cnf(self, cur, vars_, depth, inline=False, maxlines=3, rules=(), prules=(), top=False, conds=False):
        lines = []
        for _ in range(self.ch(list(range(1, maxlines + 1)))):
            alts = [self.clause(cur, vars_, depth if not inline else 0,
                                rules if (top or conds) else (), prules, top=top)
                    for _ in range(self.ch([1, 1, 1, 2, 3]))]
            lines.append((" %s " % self.ch(["or", "OR", "|OR|"])).join(alts))
        return "\n".join(lines)

    def lets(self, cur, vars_, n):
        out = []
        new = list(vars_)
        used = set()
        for _ in range(n):
            name = self.ch([x for x in ["v", "w", "x", "res", "sel"] if x not in used or not self.core])
            used.add(name)
            r = self.r.random()
            eq = self.ch(["=", ":="])
            if r < 0.35:
                v = self.scalar() if self.p(0.7) else self.value(1)
                out.append("let %s %s %s" % (name, eq, self.lit_of(v)))
                new.append((name, v))
            elif r < 0.85 or self.core:
                q, sample = self.walk(cur, vars_, 1)
                some = "some " if self.p(0.1) else ""
                out.append("let %s %s %s%s" % (name, eq, some, q))
                new.append((name, sample))
            else:
                out.append("let %s %s %s" % (name, eq, self.func_call(cur, vars_)))
                new.append((name, None))
        return out, new

    def block_body(self, cur, vars_, depth, rules=(), prules=(), top=False):
        ls, vs = self.lets(cur, vars_, self.ch([0, 0, 0, 1, 2]))
        body = self.cnf(cur, vs, depth, rules=rules, prules=prules, top=top)
        return "\n".join(ls + [body])

    def rules_file(self, doc, depth=2, cfn=False):
        out = []
        ls, vars_ = self.lets(doc, [], self.ch([0, 0, 1, 2]))
        out += ls
        nrules = self.ch([1, 1, 2, 3, 4])
        names = ["r%d" % i for i in range(nrules)]
        if self.p(0.15) and nrules > 1:
            names[1] = names[0]          # several definitions of one name
        prules = []
        if self.p(0.2) and not self.core:
            arity = self.ch([1, 1, 2])
            params = ["p", "q"][:arity]
            pvars = vars_ + [(p, None) for p in params]
            body = self.block_body(doc, pvars, 1, top=True)
            out.append("rule chk(%s) {\n%s\n}" % (", ".join(params), body))
            prules.append(("chk", arity))
        for i, name in enumerate(names):
            others = [n for n in set(names) if n != name]
            if self.p(0.03) and not self.core:
                others.append(name)       # self reference (cycle -> error)
            cond = ""
            if self.p(0.25):
                cond = " %s %s" % (self.kw("when"), self.cnf(doc, vars_, 0, inline=True, maxlines=2, rules=others, prules=prules, conds=True))
            if cfn and self.p(0.5) and not self.core:
                t = self.ch(["AWS::S3::Bucket", "AWS::EC2::Volume", "Custom::Thing"])
                sample = {"Type": t, "Properties": {"Size": 1, "Name": "a"}}
                for rv in (doc.get("Resources") or {}).values() if isinstance(doc.get("Resources"), dict) else []:
                    if isinstance(rv, dict) and rv.get("Type") == t:
                        sample = rv
                tb = "%s {\n%s\n}" % (t, self.block_body(sample, vars_, 1))
                body = tb if self.p(0.6) else tb + "\n" + self.block_body(doc, vars_, depth, others, prules, top=True)
            else:
                body = self.block_body(doc, vars_, depth, others, prules, top=True)
            out.append("rule %s%s {\n%s\n}" % (name, cond, body))
        if self.p(0.1):
            out.append(self.cnf(doc, vars_, 0, inline=True, maxlines=1))   # default rule
        return "\n".join(out) + "\n"

    def case(self, cfn=None):
        if cfn is None:
            cfn = self.p(0.2)
        d = self.cfn_doc() if cfn else self.doc()
        return {"rules": self.rules_file(d, cfn=cfn), "data": json.dumps(d)}


# ---------------------------------------------------------------- structured programs (C04 / C15)

class SG(G):
    """programs kept as structure (rules -> lines -> alternatives) so that lines, alternatives
    and rules can be permuted / duplicated before printing"""

    def lines(self, cur, vars_, depth, n=None, rules=(), top=True):
        out = []
        for _ in range(n or self.ch([1, 2, 2, 3, 3, 4])):
            alts = [self.clause(cur, vars_, depth, rules, (), top=top) for _ in range(self.ch([1, 1, 2, 3]))]
            out.append(alts)
        return out

    def program(self, doc):
        lets, vars_ = self.lets(doc, [], self.ch([0, 1, 2]))
        n = self.ch([1, 2, 3, 4])
        names = ["r%d" % i for i in range(n)]
        rules = []
        for i, name in enumerate(names):
            others = [x for x in names if x != name and (self.core or True)]
            # only reference rules in a way that cannot form a cycle: lower-numbered rules
            refs = [x for x in names[:i]] if self.p(0.7) else []
            ls, vs = self.lets(doc, vars_, self.ch([0, 0, 1]))
            rules.append({"name": name, "lets": ls, "lines": self.lines(doc, vs, 1, rules=refs)})
        return {"lets": lets, "rules": rules}


def print_program(p):
    out = list(p["lets"])
    for r in p["rules"]:
        body = list(r["lets"]) + [" or ".join(alts) for alts in r["lines"]]
        out.append("rule %s {\n%s\n}" % (r["name"], "\n".join(body)))
    return "\n".join(out) + "\n"
