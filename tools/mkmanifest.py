#!/usr/bin/env python3
"""Writes MANIFEST.json from the table below (keeps the manifest valid and in one place)."""
import json, os
VERIF = os.path.dirname(os.path.dirname(os.path.abspath(__file__)))
ALL = ["C%02d" % i for i in range(1, 20)]
CLAIMS = {
 "C13": dict(
   text="Lean 4 theorems over the mirror of compare_values/compare_eq/compare_lt..ge/is_within for ALL values (trichotomy, <=/>= decomposition, numeric/IEEE/lexicographic order, range brackets, regex = oracle, different or unordered types never ordered), tied to the code by running the compiled model and the real crate on every ordered pair of a ~40-value universe x 6 operators (+ ranges, in-lists, regexes) and by judging the implementation's own verdict matrix against the laws.",
   note="Trusted: Lean kernel (axioms propext/Classical.choice/Quot.sound only), the correspondence harness and generators, fancy_regex as an Env parameter; f64 comparison is modelled on decoded IEEE triples (bits->triple decoding in the driver is glue covered by the float stream).",
   technique="Lean 4 proof of the comparison algebra + model/implementation correspondence + law judge on implementation verdicts",
   ref="DESIGN.md §5 C13"),
}
CLAIMS.update({
 "C01": dict(
   text="An independent executable reading of the documented semantics (Guard/Spec, Lean) is compared with the implementation's verdicts on every case of an exhaustive single-clause stream and of random core-fragment programs (judge), the hand-written Lean model of the evaluator is compared with the implementation on the same cases (whole record trees), and Lean theorems prove layer by layer, for all values, that model and Spec coincide (unresolved paths FAIL both polarities / satisfy empty and !exists, empty selection = SKIP, one scalar vs one scalar literal under <,<=,>,>= gives exactly the Spec's check, quantifiers and three-valued folds are the Spec's). The end-to-end refinement Impl.runFile = Spec.runFile is kept as a statement and checked per case, not proved: the claim is partial in that sense.",
   note="Trusted: Lean kernel; the Spec's reading of docs/*.md (DESIGN Appendix E) - constructs it declares `outside` (query right-hand sides, functions, parameterised rules, type blocks, key-case fallback, numeric-looking keys, duplicate lets) are not judged; generators; Env oracles.",
   technique="Lean 4 executable specification + refinement lemmas (proved) + Spec-vs-implementation judge + model/implementation correspondence",
   ref="DESIGN.md §5 C01, §4.4"),
 "C02": dict(
   text="The evaluator model computes every composite status through five aggregators; Lean theorems characterise them for child lists of every length (line = PASS iff one alternative passed / FAIL iff none passed and one failed; body, file, type block, filter likewise; clause quantifiers; named references; permutation and duplication invariance). The property itself is a decidable predicate on record trees (`Consistent`, Lean) and `C02_tree_consistent` proves it for the evaluator: for EVERY rules file, document, Env and fuel the record tree `runFile` returns is `Consistent` (induction on fuel over all 17 functions of the mutually recursive evaluator model, `allInv`), with `C02_root_is_verdict`, `C02_records_only_added`, `C02_clause_records_consistent` for the root, the recorder discipline and clauses evaluated from any state. The same predicate (compiled into the driver) is run on the IMPLEMENTATION's own record tree for every generated case, whole trees are compared with the model, and all CNF shapes up to LxA with leaves forced to PASS/FAIL/SKIP are enumerated at five sites and the file.",
   note="Trusted: Lean kernel; the theorem is about the hand-written model, tied by whole-tree correspondence; `Consistent` reads the tree only, so `some` vs all and the polarity of a named/parameterised reference are accepted in either reading (covered by C01/C03); the record stack discipline of the Rust recorder is modelled as tree construction. Proving the theorem exposed two recorder defects (fix: eb29fe8, 7fa5906).",
   technique="Lean 4 proof that every record tree of the evaluator model is Consistent (fuel induction over the mutual block) + aggregation laws + the same Lean predicate as judge on implementation records + exhaustive CNF-shape enumeration + whole-tree correspondence",
   ref="DESIGN.md §5 C02"),
 "C03": dict(
   text="Lean theorems: for every unary operator, value and polarity the check depends only on the XOR of prefix and operator negation (so `not X op` = `X !op`, double negation restores); for every binary operator the clause with a prefix not IS the clause with the operator-level not, as state transformers of the evaluator model (same status, records, errors, any query / right-hand side / scope / fuel); a single comparable value flips, not-comparable stays FAIL; `not X > v` iff `X <= v`; `not R` PASS iff R is not PASS. Tied by an exhaustive operator x polarity x shape stream on which the implementation's own verdicts are judged against these relations.",
   note="Trusted: Lean kernel, correspondence harness. Two genuine defects were repaired (fix: commits 3bc6070, 6f7d7a5); the model follows the repaired code.",
   technique="Lean 4 proof (clause-level equality of state transformers, value-level XOR law) + exhaustive relational judge on implementation verdicts",
   ref="DESIGN.md §5 C03"),
})
CLAIMS.update({
 "C04": dict(
   text="Lean theorems (lists of every length): every aggregation the evaluator performs is invariant under permutation and duplication of its inputs, and stopping a line at its first PASS yields the same line status as evaluating all alternatives in any order; the rule-status memo returns what was stored; `C04_evaluator_short_circuits`: the evaluator model stops a line exactly at its first PASS (the statuses it returns are their own evaluated prefix), for every line, state and fuel. The premise that no clause changes what another one sees is checked per case: structured random programs with all permutations of lines (<= 4), alternatives and rules, repeated lines/alternatives and rules duplicated under a new name, implementation verdicts compared across each class. The premise is FALSE for key-capture variables: listed known finding F-C04-1, whose canonical replay is re-run every time.",
   note="Partial: the end-to-end statement for the evaluator needs the memo-soundness invariant (not proved); it is judged per case. Known finding F-C04-1 (known_findings.json).",
   technique="Lean 4 proof of permutation/duplication/short-circuit invariance of all aggregators + permutation-class judge on implementation verdicts",
   ref="DESIGN.md §5 C04"),
 "C15": dict(
   text="Lean theorems on the evaluator model's scope chain, for every scope state: a literal variable resolves to exactly its literal without touching the state; a memoised variable returns the stored result set (every later reference sees the same value); value scopes and parameter contexts are transparent for names they do not bind; inner literals shadow outer definitions; parameters resolve to the argument's result set; unbound names are errors; the documented emptiness exception is stated; nothing evaluated inside a scope changes its root, its let tables or the parameter bindings (C15_scopes_stable, C15_let_tables_unchanged: whole evaluator, every state). The general substitution statement for query variables is judged on every generated abstraction site (file / rule / block / when scope, prefix abstraction, shadowing, twice, unused and erroring variables, parameterised rules) by comparing implementation verdicts.",
   note="Partial: query-variable substitution for all programs is not proved (needs memo soundness over the fuel-indexed evaluator).",
   technique="Lean 4 proof of scope-chain lemmas + abstraction-site judge on implementation verdicts + correspondence",
   ref="DESIGN.md §5 C15"),
 "C06": dict(
   text="The exit-code folds of validate (plain: last non-zero wins; structured json/yaml/sarif; junit: 5 kept over 19) and test (single, --dir, plain and structured, 1 sticky over 7) are modelled in Lean over per-file outcomes with the numeric codes re-extracted from /repo on every run, and the property's iff's are proved for ANY number of rules files, data files and test cases (0 iff all parsed and no FAIL; all parse + FAIL => 19; parse error + no FAIL => 5; Err => 255, never 0/19; test: 0 iff everything parses and matches, 7 for a mismatch). Tied by running the REAL binary on every (rules class x data class x mode) pair and on random 1..3 x 1..3 scenarios and comparing process exit statuses with the model; the iff's are judged directly on the observed exit statuses.",
   note="Trusted: clap argument handling, file system, process exit are interface; per-pair statuses fed to the model come from the implementation itself. Two genuine defects repaired (40c0885 unreadable rules file exit 0; 6fa14a5 test -o json exit 0 on unparsable rules).",
   technique="Lean 4 proof over exit-code folds with generated constants + real-binary correspondence + iff judge",
   ref="DESIGN.md §5 C06, Appendix C"),
 "C09": dict(
   text="Lean mirror of simplified_json_from_root / report_all_failed_clauses_for_rules / FileReport::combine / Status::and, with theorems for every record tree: each evaluated rule appears under exactly the heading of its status; file status FAIL iff not_compliant non-empty, PASS iff empty and compliant non-empty (on a consistent tree); combine = union + Status::and = two-element aggregation = the table GENERATED from rules/mod.rs; every listed check IS a recorded failed check of that rule (custom message included), every FAIL rule is listed, nothing is attributed to PASS/SKIP rules; `C09_rule_statuses_are_evaluations`: the per-rule statuses the report partitions are exactly, in file order, (name, status returned by evaluating that rule) for every rule of the file, for the evaluator model at every fuel. The model's report function is applied to the implementation's own trees and compared with the implementation's reports (library and real binary with 1..3 rules files); the statements are also judged directly on the implementation's report vs its tree.",
   note="Trusted: serde_json serialisation is only read back. A genuine defect found by this check was repaired (5cf016c).",
   technique="Lean 4 proof by mutual structural induction over record trees + model-on-implementation-tree correspondence + report judge",
   ref="DESIGN.md §5 C09"),
})
CLAIMS.update({
 "C07": dict(
   text="Every renderer reads one record tree / the FileReport derived from it. Lean theorems: the partitions extracted by the summary table and by the structured report coincide (rule names by status, same file status), the JUnit mark is a function of the file status, SARIF has one result per reported failing check of FAIL reports only, and the exit code of one evaluated pair is a function of the file status in every mode. Tied by the full cross product on the real binary: -S all|pass|fail|skip|none, -v, -p, -o json/yaml with and without --structured, junit, sarif, stdin, --payload (plain and structured) and the library call, whose partitions, statuses and exit codes must coincide; JSON/YAML/XML are read back and compared. Partial: serializer well-formedness (serde_json, serde_yaml, quick_xml) is only read back, not proved.",
   note="Partial (read-back of serializers; console detail lines are uninterpreted). YAML is re-read with PyYAML (1.1) under a tolerant scalar comparison.",
   technique="Lean 4 proof over the report model + cross-product judge on the real binary and the library entry point",
   ref="DESIGN.md §5 C07"),
 "C12": dict(
   text="In the model a batch is a map of runFile over the pairs and runFile starts from St.init where the Rust loops call root_scope; theorems: leftover state is not an input, every pair of a batch equals that pair alone, permuting files permutes results, the batch fails iff a pair fails (with C06); and, proved through the whole mutual evaluator, evaluating a rules file from ANY state leaves the scope stack exactly as it found it (C12_scopes_restored, C12_init_stack). The weight is on the tie: batches of 1..3 rules files sharing variable, rule and key-capture names x 1..4 documents on the real binary, structured and plain, every order of -r/-d, directories with -a and -m (controlled mtimes), symbolic links, --payload lists, each compared with the union of the pairs validated alone; SARIF and JUnit per data file and per rules file, input parameters with several data files, batch vs alone; `test` files with n cases vs each case alone (plain, json, yaml, junit; both orders; rules that refer to other rules).",
   note="Partial: the isolation theorems hold by construction of the model; what ties them to the code is the batch-vs-singleton comparison (walkdir ordering, file system and mtimes are runtime).",
   technique="Lean 4 theorems on the batch model + batch-vs-singleton judge on the real binary",
   ref="DESIGN.md §5 C12"),
 "C16": dict(
   text="Lean model of get_by_rules / get_status_result / the classification of a test case, with theorems for any number of definitions of a rule: an expectation is met iff some definition has the expected non-SKIP status, or SKIP is expected and all are SKIP; rules without an expectation are never failures; the statuses grouped under a name are exactly the top-level rule records of the evaluator's tree with that name, in order. The real `test` command (plain, json, yaml, junit; single file and --dir) is compared with the statuses `validate` assigns to the same rules on the same inputs, with the Lean classification, and across formats; the same cases split over two test files (both orders, -t dir and --dir) must give the same exit code.",
   note="Trusted: test inputs are loaded through serde_yaml, validate inputs through the library loader; agreement on JSON-compatible scalars is C11.",
   technique="Lean 4 proof of the expectation-matching function + test-vs-validate and cross-format judge on the real binary",
   ref="DESIGN.md §5 C16"),
 "C17": dict(
   text="Lean mirror of PathAwareValue::merge and of the parameter-file fold with theorems for all documents: merge succeeds iff the top-level key sets are disjoint, otherwise it is the MultipleValues error (never a silent choice); on success the result is the old entries followed by the incoming ones (nothing lost, nothing overridden, keys and values aligned); non-structs are an error. Tied by splitting documents at random into 1..3 parameter files + data (disjoint and overlapping), plain and structured, on the real binary: verdicts equal those on the pre-merged document, for every order of the parameter files, and equal the Lean merge+evaluator model; conflicts (also with equal values) must fail; parameter files reached through symbolic links and parameter files with scalars only some YAML readers type (True, 0x1F90, ~, yes) must mean what the same text means inside the document.",
   note="A genuine defect was repaired earlier (81fec31: structured mode panicked on a conflict). Order independence is judged, not proved (top-level key order only matters to programs that enumerate the root).",
   technique="Lean 4 proof of the merge function + split/pre-merged/reordered judge on the real binary + model correspondence",
   ref="DESIGN.md §5 C17"),
})
CLAIMS.update({
 "C18": dict(
   text="Lean mirror of functions/*.rs and of the argument dispatch in eval_context.rs with theorems for all argument lists: count = number of resolved members; element-wise functions give one slot per member in query order with unresolved / unsupported members skipped; substring on ASCII strings is the half-open character range and empty outside it, offsets >= 65536 do not wrap; join concatenates strings with the delimiter and is an error on any non-string; decimal digits round-trip; converters return an error, never a wrong value, on unparsable input. Tied by an independent Python reference of the documented behaviour run against the implementation on generated arguments (including multi-byte text, empty selections, type mismatches) and by model/implementation correspondence; to_upper/to_lower/url_decode/regex_replace/json_parse/parse_epoch are Env parameters (their tables are filled from the real crates per batch).",
   note="Partial for the oracle-backed functions (regex, case mapping, URL decoding, JSON, chrono are parameters, compared per batch only). Genuine defects repaired: 8baf9b1, 1ff20c9, 57f0017.",
   technique="Lean 4 proof over the function model + reference-implementation judge + correspondence",
   ref="DESIGN.md §5 C18"),
 "C11": dict(
   text="Lean model of the scalar typing cascade and of the tag handling of the libyaml-path loader with theorems: quoted scalars are strings whatever they spell; typing depends on (style, text) only; JSON integers / floats / true / false / null are typed as such; other plain words are strings; the short-form tag tables GENERATED from the source are total, each maps to its documented long form, every loader consults the same table, unknown tags leave the value untouched. Tied by serialising every generated document in six ways (compact / pretty JSON, block / flow YAML, quoted variations, tagged forms) and loading it through all four loaders via the hook: typed values must coincide (4x4 comparison).",
   note="Partial: libyaml tokenisation and serde_json / serde_yaml are interface, only compared per document. Genuine defects repaired: dac9b90 (loaders consulted different tag sets), d6c7591 (serde_json float parsing one ulp off).",
   technique="Lean 4 proof of the typing cascade and tag tables (generated) + cross-loader / cross-serialisation judge through the hook",
   ref="DESIGN.md §5 C11"),
 "C14": dict(
   text="The synonym tables are GENERATED from parser.rs and Lean theorems prove: every keyword has exactly its two case spellings (or: or/OR/|OR|), not/NOT/! and =/:= are the negation and assignment forms; white space and comments of any shape are skipped to the same token; single and double quotes denote the same string; `this` is the identity query step of the evaluator model. The grammar above the lexical layer is not transliterated: every generated program is re-spelled token class by token class (case, or-forms, not-forms, :=, quotes, layout, comments, this., numeric keys) and the real parser's ASTs and the verdicts must coincide.",
   note="Partial (grammar tied by re-spelling judge only). Known finding F-C14-1 (type block vs filter on documents without a Resources struct).",
   technique="Lean 4 proof over generated synonym tables and the lexer model + re-spelling judge on the real parser and evaluator",
   ref="DESIGN.md §5 C14"),
 "C19": dict(
   text="Lean model of gen_rules with theorems for every list of resources: one rule per resource type that has properties, one clause per property name of that type, and the value list of a clause contains exactly the rendered values occurring for that (type, property) - so every occurrence satisfies its clause and a fresh value does not. That the emitted text parses to these clauses, that validate reports PASS on the source template and FAIL after mutating a property is judged on the real binary (rulegen -> parse -> validate -> mutate).",
   note="Known findings F-C19-1..5 (trimmed strings, dotted property names, properties present in only some resources, mixed list/scalar values, JSON-escaped strings inside nested values). Genuine defect repaired: f746749 (hash-order output).",
   technique="Lean 4 proof over the rulegen model + rulegen->parse->validate->mutate judge on the real binary",
   ref="DESIGN.md §5 C19"),
 "C05": dict(
   text="Every Lean function is deterministic, so the content is that every SOURCE of non-determinism is a parameter or audited: (1) a GENERATED obligation - every iteration over a std HashMap/HashSet that tools/extract.py finds in the current source is in the reviewed baseline with the reason its order cannot reach an output (a new site breaks the theorem); (2) every aggregation is invariant under permutation of what such a container yields; (3) the clock is the Env field `now`, read by no function but now(); (4) evaluation starts from St.init, nothing evaluated earlier is an input. The runtime part is judged by repetition: every (scenario, mode) of validate / test / parse-tree / rulegen in 5 fresh processes of the real binary under 5 environments and 5 times inside one long-lived process with other work in between - equal exit codes, byte-identical structured output (JUnit modulo time=), console output equal as a multiset of lines; stderr likewise (error paths included); the data files of a run given in the opposite order must report the same per file; time stamps of every shape through parse_epoch under several time zones; multi-line templates with several failing resources (source excerpts of the console reporter).",
   note="Partial: actual hash seeds, process environment and clock are runtime; repetition can only sample them. The site scan is token-level (tools/extract.py).",
   technique="Lean 4 proof (generated hash-site coverage obligation, permutation invariance, clock independence) + repeat-run judge (fresh processes and in-process)",
   ref="DESIGN.md §5 C05"),
 "C08": dict(
   text="The model is total: every function is a total Lean function, a Rust panic inside a modelled function is an explicit Outcome.panic. (1) GENERATED obligation: every panic-capable construct (unwrap, expect, unreachable!, panic!, slicing, indexing, narrowing casts, exit) found in the current source per function is in the reviewed baseline (a new one breaks the theorem); (2) with the arities the parser enforces (generated table), no function call indexes out of bounds whatever the argument result sets are; (3) scope-stack discipline proved for the whole fuel-indexed mutual evaluator (all 17 functions, every program, document, state): the stack pattern match of resolve_variable and resolver.root() after a step cannot fail; (4) C08_evaluator_never_panics / C08_no_unreachable: for EVERY well-formed rules file (RulesFile.wf, the decidable shape invariants of parser output - evaluated by the driver on every AST the harness sends, a `false` is a correspondence disagreement), document, Env and fuel the evaluator model can only panic at two residue sites (the keys-filter map lookup, the model-only float-oracle site): no unreachable!() arm, query/argument index or scope-stack match is reachable (fuel induction over all 17 functions); C08_comparison_layer_never_panics: (CmpOperator, bool)::compare never panics for any operator, polarity and result sets; (5) the model predicts panic exactly where the implementation panics (correspondence, catch_unwind). Judged on: adversarial + random parser-accepted programs x documents through run_checks (verbose and report mode); byte/token-mutated rules, data, test, payload and parameter files through validate / test / parse-tree / rulegen in-process and in the real binary (signals, exit status, timeouts); every rules file the grammar rejects must be rejected with line and column and without evaluating any rule.",
   note="Partial: the nom grammar and libyaml on arbitrary bytes are outside the model (testing only); termination is not proved (the model is fuel-indexed, outOfFuel stands for unbounded recursion); the residue site of the keys filter needs the keys.len = values.len invariant of loaded maps. Known findings F-C08-1 (self-calling parameterised rule overflows the stack) and F-C08-2 (parse time doubles per filter nesting level). Genuine defects repaired: c360fa1, 1ff20c9, 1ce4a53, 3091729, d49a770, 5cf016c, 57f0017, 1adb1d3, 81fec31, f0c00fd, de9d89f, d4746fd, afbc8cc, 6b03de4, 1fdce50, a0fc979, a9b2158. Sites labelled `audited` in the baseline are inventoried, not proved unreachable.",
   technique="Lean 4 proof (whole-evaluator never-panics theorem on well-formed files by fuel induction, comparison layer panic-free, generated panic-site coverage obligation, total model) + well-formedness of parser output checked per AST + mutated-input / adversarial-program crash judge",
   ref="DESIGN.md §5 C08"),
 "C10": dict(
   text="Lean theorems on the loader and retrieval model for documents of any size: every value reachable in a loaded document by the segments s1..sn carries exactly the pointer /s1/../sn (so a reported path resolves to the reported value); for every query made of keys, indices, [*], .* (with or without key capture), this and FILTERS OF ANY CONTENT (no variable head, no keys filter) and every fuel, scope state, rules file and case-conversion mode, each result of the evaluator model's queryRetrieval - resolved, or the point an unresolved result stopped at - sits in the document at the pointer it carries and no literal is produced (C10_plain_query_sound, C10_filter_query_sound, by induction over the fuel-indexed mutual evaluator); an unresolved step names the value it stopped at, that value is in the document and the missing key / index does not resolve there. Judged on the real evaluator: generated function-free rule files x documents serialised as JSON, flow and block YAML with randomised layout - every reported from / traversed_to (and data-borne to) must resolve to exactly its value, the next queried segment must be absent at traversed_to, and every [L:l,C:c] of a scalar must equal the position an independent scanner (PyYAML composer) gives that scalar.",
   note="Partial: source positions (libyaml marks) are not modelled, only judged; soundness of queries with a variable head or a keys filter rests on the step lemmas + correspondence.",
   technique="Lean 4 proof of load-path soundness and retrieval-step closure + layout-randomised path/value/position judge",
   ref="DESIGN.md §5 C10"),
})
REASONS = {}
def main():
    checks = []
    for p in ALL:
        if p in CLAIMS:
            c = CLAIMS[p]
            checks.append({
                "property_id": p,
                "quick_cmd": "python3 tools/check.py %s --tier quick" % p,
                "thorough_cmd": "python3 tools/check.py %s --tier thorough" % p,
                "evidence_file": "evidence/%s.json" % p,
                "replay_cmd_template": "python3 tools/check.py %s --replay {path}" % p,
                "engine": "lean4-model",
                "level_claimed": {"category": "proof", "text": c["text"], "design_ref": c["ref"]},
                "level_note": c["note"],
                "technique": c["technique"],
            })
    man = {
        "version": 1,
        "setup_cmd": "python3 tools/check.py --setup",
        "hooks": {
            "guard": "verif_hooks",
            "enable": "cargo feature `verif_hooks` of the cfn-guard crate, switched on by harness/Cargo.toml (path dependency on /repo/guard)",
            "baseline_off_cmd": "cd /repo && cargo test --workspace --no-fail-fast --offline",
            "source_commits": ["7cab23c"],
            "add_only": True,
        },
        "engines": [{"name": "lean4-model", "path": "lean/", "serves_properties": sorted(CLAIMS),
                     "kind_free_text": "hand-written executable Lean 4 model + theorems; generated tables (tools/extract.py); correspondence harness (harness/, tools/)"}],
        "checks": checks,
        "not_applicable": [{"property_id": p, "reason": REASONS.get(p, "not claimed at this commit: its theorems / correspondence stream are still being built (see DESIGN.md §8 work order)")}
                           for p in ALL if p not in CLAIMS],
        "notes": "Every check regenerates Guard/Gen from /repo, rebuilds the Lean theorems and the harness against /repo's working tree, then runs correspondence + judge. known_findings.json lists recorded findings and the fix: commits.",
    }
    json.dump(man, open(os.path.join(VERIF, "MANIFEST.json"), "w"), indent=1)
if __name__ == "__main__":
    main()
