#!/usr/bin/env python3
"""Writes MANIFEST.json from the table below (keeps the manifest valid and in one place)."""
import json, os
VERIF = os.path.dirname(os.path.dirname(os.path.abspath(__file__)))
ALL = ["C%02d" % i for i in range(1, 20)]
CLAIMS = {
 "C13": dict(
   text="Lean 4 theorems over the mirror of compare_values/compare_eq/compare_lt..ge/is_within for ALL values (trichotomy, <=/>= decomposition, numeric/IEEE/lexicographic order, range brackets, regex = oracle, different or unordered types never ordered), tied to the code by running the compiled model and the real crate on every ordered pair of a ~40-value universe x 6 operators (+ ranges, in-lists, regexes) and by judging the implementation's own verdict matrix against the laws.",
   note="Trusted: Lean kernel (axioms propext/Classical.choice/Quot.sound only), the correspondence harness and generators, fancy_regex as an Env parameter; f64 comparison is modelled on decoded IEEE triples (bits->triple decoding in the driver is glue covered by the float stream).",
   technique="Lean 4 proof of the comparison algebra + model/implementation correspondence + law judge on implementation verdicts",
   ref="DESIGN.md §5 C13"),
}
REASONS = {}
def main():
    checks = []
    for p in ALL:
        if p in CLAIMS:
            c = CLAIMS[p]
            checks.append({
                "property_id": p,
                "quick_cmd": "python3 tools/check.py %s --tier quick" % p,
                "thorough_cmd": "python3 tools/check.py %s --tier thorough" % p,
                "evidence_file": "evidence/%s.json" % p,
                "replay_cmd_template": "python3 tools/check.py %s --replay {path}" % p,
                "engine": "lean4-model",
                "level_claimed": {"category": "proof", "text": c["text"], "design_ref": c["ref"]},
                "level_note": c["note"],
                "technique": c["technique"],
            })
    man = {
        "version": 1,
        "setup_cmd": "python3 tools/check.py --setup",
        "hooks": {
            "guard": "verif_hooks",
            "enable": "cargo feature `verif_hooks` of the cfn-guard crate, switched on by harness/Cargo.toml (path dependency on /repo/guard)",
            "baseline_off_cmd": "cd /repo && cargo test --workspace --no-fail-fast --offline",
            "source_commits": ["7cab23c"],
            "add_only": True,
        },
        "engines": [{"name": "lean4-model", "path": "lean/", "serves_properties": sorted(CLAIMS),
                     "kind_free_text": "hand-written executable Lean 4 model + theorems; generated tables (tools/extract.py); correspondence harness (harness/, tools/)"}],
        "checks": checks,
        "not_applicable": [{"property_id": p, "reason": REASONS.get(p, "not claimed at this commit: its theorems / correspondence stream are still being built (see DESIGN.md §8 work order)")}
                           for p in ALL if p not in CLAIMS],
        "notes": "Every check regenerates Guard/Gen from /repo, rebuilds the Lean theorems and the harness against /repo's working tree, then runs correspondence + judge. known_findings.json lists recorded findings and the fix: commits.",
    }
    json.dump(man, open(os.path.join(VERIF, "MANIFEST.json"), "w"), indent=1)
if __name__ == "__main__":
    main()
